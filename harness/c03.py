"""C03 — template expansion always terminates with a string, whatever templates contain.

L1  lean/MwVerif/Props/C03.lean over Model/Templ.lean: the evaluator is a total function for every
    (cyclic) template database; the recursion counter alone bounds the nesting (fuel-irrelevance);
    no recursion error escapes the outermost call; generated dispatch table of every reachable magic
    word / parser function accepts the dispatcher's argument list.
L2  (a) translator: Gen/Magics.lean by introspection of the live MagicResolver / registry
    (b) correspondence: Model.expand vs Expander.expandTemplates (compiled from the working tree) on
        generated universes with arbitrary call graphs, missing templates, unbalanced braces, small
        and production recursion limits
L3  search / oracle on the real code: every registered name (built-in, dummy, node class, and every
    site alias of every bundled site) x argument count 0..3 x argument shapes, in colon and pipe
    form: returns a str, no exception, CPU time and output size within a budget proportional to the
    input; #expr operator x number-shape products; raw fuzz over the template alphabet.
"""
from __future__ import annotations

import itertools
import json
import random
import time
from collections import Counter

from . import common

LEVEL = "proof"
PROP_MODULES = ["MwVerif.Props.C03"]

SHAPES = ["", "foo", "7", "20000000", "99999999999999999999", "-3", "-99999999", "2.5", "1e3",
          "1e2000000", "a/b/c", "../../x", "{{lc:ABC}}", "{{tq1|{{PAGENAME}}}}"]
NUMS = ["0", "7", "-3", "2.5", "20000000", "-99999999", "99999999999999999999", "1e3", "1e2000000", "1e-2000000", ".5"]

CPU_BUDGET = 1.0          # seconds of process time for one call (typical: < 5 ms)
HARD_TIMEOUT = 30.0       # wall seconds before a worker is killed and the input reported


def size_budget(page):
    return 4000 + 40 * len(page)


# ----------------------------------------------------------------------------- worker side

_STATE = {}


def _setup(lang):
    import logging

    from . import build_repo

    logging.disable(logging.WARNING)        # "using dummy resolver for ..." etc. on stderr
    build_repo.overlay_all()
    from mwlib.network.siteinfo import get_siteinfo
    from mwlib.parser.expander import DictDB, Expander

    key = ("exp", lang)
    if key not in _STATE:
        from .templ_common import wiki_db

        db = wiki_db({"tq1": "[{{{1}}}|{{{2|-}}}]", "tq2": "{{tq2|{{{1}}}x}}", "loop": "{{loop}}"}, lang)
        _STATE[key] = (Expander, db)
    return _STATE[key]


def expand_once(lang, page):
    """-> (status, detail, cpu_seconds, out_len)"""
    Expander, db = _setup(lang)
    t = time.process_time()
    try:
        out = Expander(page, pagename="Some/Sub page", wikidb=db).expandTemplates()
    except BaseException as e:  # noqa: BLE001
        if isinstance(e, (KeyboardInterrupt, SystemExit)):
            raise
        return ("exception", f"{type(e).__name__}: {str(e)[:200]}", time.process_time() - t, 0)
    dt = time.process_time() - t
    if not isinstance(out, str):
        return ("not-a-string", type(out).__name__, dt, 0)
    if dt > CPU_BUDGET:
        return ("cpu-budget", f"{dt:.2f} s of CPU for an input of {len(page)} characters", dt, len(out))
    if len(out) > size_budget(page):
        return ("size-budget", f"{len(out)} characters of output for an input of {len(page)} characters", dt, len(out))
    return ("ok", "", dt, len(out))


def search_worker(items, extra, progress):
    bad, hist = [], Counter()
    tmax = 0.0
    for i, (lang, page) in enumerate(items):
        if i % 64 == 0 and progress.stop_requested():
            break
        progress(i)
        st, detail, dt, n = expand_once(lang, page)
        hist[st] += 1
        tmax = max(tmax, dt)
        if st != "ok":
            bad.append({"lang": lang, "page": page, "status": st, "detail": detail})
    return bad, dict(hist), tmax


def guarded_search(chk, items, nproc=16):
    """run expand_once over items in guarded child processes; a child stuck on one input for more
    than HARD_TIMEOUT, or killed by it, names that input. Stops early once 5 inputs failed."""
    from . import guard

    def enough(results, culprits):
        return len(culprits) + sum(len(r[0]) for r in results) >= 5 or len(culprits) >= 2

    results, culprits = guard.guarded_run(str(chk.mkscratch()), "harness.c03:search_worker", items, nproc=nproc,
                                          hard_timeout=HARD_TIMEOUT, stop_when=enough)
    bad, hist, tmax = [], Counter(), 0.0
    for b, h, tm in results:
        bad += b
        hist.update(h)
        tmax = max(tmax, tm)
    for item, kind, detail in culprits:
        hist[kind] += 1
        lang, page = item if item else ("?", None)
        bad.append({"lang": lang, "page": page, "status": kind, "detail": detail})
    return bad, hist, tmax


# ----------------------------------------------------------------------------- input spaces

def registered_names():
    """(lang, spelling) for every function name reachable on each bundled site."""
    import glob
    import os

    from . import build_repo

    build_repo.overlay_all()
    from . import gen_tables

    rows = gen_tables.c03_table()
    base = sorted({n.lower() for n, _, _ in rows})
    known = set(base)
    out = [("en", n) for n in base]
    aliases = []
    for f in sorted(glob.glob(str(common.REPO / "src/mwlib/network/known_sites/siteinfo-*.json"))):
        lang = os.path.basename(f)[len("siteinfo-"):-len(".json")]
        si = json.load(open(f))
        for mw in si.get("magicwords", []):
            name = mw["name"]
            for a in mw.get("aliases", []):
                for cand, tgt in ((a, name), ("#" + a, "#" + name)):
                    if tgt in known and cand.lower() not in known and "$" not in cand:
                        aliases.append((lang, cand))
    return rows, out, sorted(set(aliases))


def call_forms(name, args):
    """the two ways of passing arguments: first one after the colon, or all piped."""
    forms = []
    if not args:
        forms.append("{{" + name + "}}")
        forms.append("{{" + name + ":}}")
    else:
        forms.append("{{" + name + ":" + "|".join(args) + "}}")
        forms.append("{{" + name + "|" + "|".join(args) + "}}")
    return forms


def name_space(rng, names, tier, full):
    items = []
    for lang, name in names:
        spell = [name, name.upper()] if full else [name]
        for sp in spell:
            for cnt in range(4):
                if cnt == 0:
                    combos = [()]
                elif full and (tier == "thorough" or cnt <= 1):
                    combos = list(itertools.product(SHAPES, repeat=cnt))
                    if cnt == 3:
                        combos = rng.sample(combos, 300)
                else:
                    # every shape in every position, the other positions random
                    combos = []
                    for pos in range(cnt):
                        for sh in SHAPES:
                            c = [rng.choice(SHAPES) for _ in range(cnt)]
                            c[pos] = sh
                            combos.append(tuple(c))
                for c in combos:
                    for form in call_forms(sp, list(c)):
                        items.append((lang, form))
    return items


def pair_space(rng, names, tier):
    """two calls on one page, every ordered pair of registered names: the first without arguments (or with one), the second
    with one - the dispatcher and the resolver object live for the whole expansion, so a call can disturb a later one."""
    plain = sorted({n for lang, n in names if lang == "en"} or {n for _, n in names})
    items = []
    for a in plain:
        for b in plain:
            seconds = ["{{%s:x}}", "{{%s}}", "{{%s|x}}"]
            for first in ("{{%s}}" % a, "{{%s:Foo}}" % a):
                for second in (seconds if tier == "thorough" else [rng.choice(seconds)]):
                    items.append(("en", first + " " + second % b))
    return items


def recursion_space(names):
    """a template that includes itself, reached through an argument of every registered name (colon and pipe form, first and
    second argument), with the same recursion before and after it on the page: whatever a function does with an argument that
    hit the nesting limit, the rest of the expansion goes on and ends in a string."""
    plain = sorted({n for lang, n in names if lang == "en"} or {n for _, n in names})
    items = []
    for a in plain:
        for call in ("{{%s|{{loop}}}}", "{{%s:{{loop}}}}", "{{%s|x|{{loop}}}}", "{{%s:x|{{tq2|y}}|1|2}}"):
            c = call % a
            items += [("en", "x" + c + "y{{loop}}z"), ("en", "{{loop}}" + c + c + "{{tq2|v}} w")]
    return items


def expr_space(rng, tier):
    from mwlib.parser import expr

    ops = sorted(k for k in expr.precedence if isinstance(k, str) and k not in "()")
    items = []
    for op in ops:
        for a in NUMS:
            items.append(("en", "{{#expr: %s %s}}" % (op, a)))
            items.append(("en", "{{#expr: %s %s}}" % (a, op)))
            for b in NUMS:
                items.append(("en", "{{#expr: %s %s %s}}" % (a, op, b)))
                items.append(("en", "{{#ifexpr: %s %s %s | y | n}}" % (a, op, b)))
    if tier == "thorough":
        for _ in range(20000):
            e = rng.choice(NUMS)
            for _ in range(rng.randint(1, 4)):
                op = rng.choice(ops)
                e = rng.choice(["(%s) %s %s", "%s %s (%s)", "%s %s %s"]) % (e, op, rng.choice(NUMS))
            items.append(("en", "{{#expr: %s}}" % e))
    return items, ops


ALPHABET = ["{{", "}}", "{{{", "}}}", "|", "=", ":", "#", "{", "}", "[[", "]]", "<noinclude>", "</noinclude>",
            "<includeonly>", "</includeonly>", "<onlyinclude>", "</onlyinclude>", "<nowiki>", "</nowiki>",
            "<!--", "-->", "\n", " ", "tq1", "tq2", "loop", "1", "2", "x", "#if:", "#ifeq:", "#switch:", "#expr:",
            "#default", "padleft:", "lc:", "PAGENAME", "ns:", "#time:", "#titleparts:", "urlencode:", "formatnum:",
            "#tag:", "#iferror:", "#ifexist:", "subst:", "safesubst:", "#rel2abs:", "anchorencode:", "20000000", "-1", "../"]


def time_space():
    """#time: every format character, alone and after each prefix, with typical date arguments."""
    import string

    items = []
    for pre in ["", "x", "xr", "xk", "xi", "xj", "xn", "xN", "xg", "\\", '"']:
        for ch in string.ascii_letters + string.digits + '"\\ -:/':
            for arg in ["", "|2020-02-29", "|99999-01-01", "|0", "|junk", "|-1 year", "|1e9", "|5000-01-01"]:
                items.append(("en", "{{#time:" + pre + ch + arg + "}}"))
    return items


def fuzz_space(rng, n, names):
    items = []
    for _ in range(n):
        k = rng.randint(1, 25)
        toks = [rng.choice(ALPHABET) if rng.random() < 0.85 else rng.choice(names)[1] for _ in range(k)]
        items.append((rng.choice(["en", "de", "fr", "ja"]), "".join(toks)))
    return items


# ----------------------------------------------------------------------------- correspondence

def corr_universe(useed):
    from . import templ_common as tc

    rng = random.Random(useed)
    page, db = tc.UGen(rng).universe()
    return page, db, rng.choice([100, 100, 100, 5, 3, 8, 2])


def corr_worker(items, extra, progress):
    from . import build_repo

    build_repo.overlay_all()
    from . import templ_common as tc
    from .common import Driver, dec

    reqs, meta = [], []
    hist = Counter()
    early = []
    for i, useed in enumerate(items):
        if i % 64 == 0 and progress.stop_requested():
            break
        progress(i)
        page, db, lim = corr_universe(useed)
        t = time.process_time()
        try:
            out, parsed, trees = tc.expand_real(page, db, lim)
        except Exception as e:  # noqa: BLE001  (parsing the page or a template raised: the property's own failure)
            early.append({"why": f"expansion raised {type(e).__name__}: {e}", "page": page, "templates": db, "limit": lim})
            hist["exception"] += 1
            continue
        dt = time.process_time() - t
        hit = tc.LIMIT_HITS[0]
        reqs.append(tc.model_request(parsed, trees, lim if hit else 100000))
        meta.append((page, db, lim, out, hit, dt))
    progress(len(items))
    outs = Driver("templ").ask(reqs)
    diffs, viol = [], early
    for (page, db, lim, out, hit, dt), o in zip(meta, outs):
        hist["limit-hit" if hit else "no-limit-hit"] += 1
        if isinstance(out, tuple):
            viol.append({"why": f"expansion raised {out[1]}: {out[2]}", "page": page, "templates": db, "limit": lim})
            hist["exception"] += 1
            continue
        if dt > CPU_BUDGET:
            viol.append({"why": f"expansion took {dt:.2f} s of CPU", "page": page, "templates": db, "limit": lim})
        if o == "opaque":
            hist["model-opaque"] += 1
            continue
        m = dec(o[3:]) if o.startswith("ok") else o
        hist["model-" + ("string" if o.startswith("ok") else o)] += 1
        if m != out and not (hit and isinstance(m, str)):
            diffs.append({"page": page, "templates": db, "limit": lim, "impl": out, "model": m, "limit_hits": hit})
    return diffs, viol, dict(hist)


def correspondence(chk, n_total, nproc=12):
    from . import guard

    items = [chk.seed * 10_000_000 + i for i in range(n_total)]
    results, culprits = guard.guarded_run(str(chk.mkscratch()), "harness.c03:corr_worker", items, nproc=nproc,
                                          hard_timeout=HARD_TIMEOUT + 60, stop_when=lambda r, c: len(c) >= 2)
    diffs, viol, hist = [], [], Counter()
    for d, v, h in results:
        diffs += d
        viol += v
        hist.update(h)
    for item, kind, detail in culprits:
        hist[kind] += 1
        if item is None:
            raise common.HarnessError("correspondence worker failed to start: " + detail)
        page, db, lim = corr_universe(item)
        viol.append({"why": f"{kind}: {detail}", "page": page, "templates": db, "limit": lim})
    return diffs, viol, hist, n_total


# ----------------------------------------------------------------------------- main

# ----------------------------------------------------------------------------- brace matching (Model/Braces.lean)

BRACE_ALPHA = ["{", "{{", "{{{", "{{{{", "}", "}}", "}}}", "}}}}", "[[", "]]", "|", "a", "=", "<noinclude>x</noinclude>", "<includeonly>",
               " ", "#if:", "b c", "{{{{{", "}}}}}", "\n", "</includeonly>"]


def braces_worker(items, extra, progress):
    """the real brace matcher (Parser.parse with the node constructors replaced by raw holders and optimize() off) vs the model."""
    import itertools
    import logging

    from . import build_repo

    build_repo.overlay_all()
    logging.disable(logging.WARNING)
    from mwlib.parser.templ import parser as P
    from mwlib.parser.templ.scanner import Symbols, tokenize

    from .common import Driver

    class Raw(P.Parser):
        def template_from_children(self, children):
            return ("T", list(children))

        def variable_from_children(self, children):
            return ("V", list(children))

    def cps(s):
        return ".".join(str(ord(c)) for c in s)

    def ser(n):
        if isinstance(n, str):
            return "S" + cps(n)
        if isinstance(n, tuple):
            return n[0] + "[" + " ".join(ser(c) for c in n[1]) + "]"
        return "G[" + " ".join(ser(c) for c in n) + "]"

    reqs, meta, viol, hist = [], [], [], Counter()
    for i, it in enumerate(items):
        if i % 512 == 0 and progress.stop_requested():
            break
        progress(i)
        if isinstance(it, int):
            rng = random.Random(it)
            txt = "".join(rng.choice(BRACE_ALPHA) for _ in range(rng.randint(1, 12)))
        else:
            txt = "".join(BRACE_ALPHA[k] for k in it)
        toks = []
        for ty, t in tokenize(txt)[:-1]:
            if ty == Symbols.bra_open:
                toks.append("o%d" % len(t))
            elif ty == Symbols.bra_close:
                toks.append("c%d" % len(t))
            elif ty == Symbols.noi:
                toks.append("n")
            elif ty == Symbols.link:
                toks.append("[" if t == "[[" else "]")
            else:
                toks.append("t" + cps(t))
            if ty in (Symbols.bra_open, Symbols.bra_close) and len(t) < 2:
                viol.append({"why": "precondition: the tokenizer produced a run of braces shorter than 2 (hypothesis of "
                             "c03_brace_matching_total_and_lossless)", "page": txt})
        old = P.optimize
        P.optimize = lambda x: x
        try:
            real = " ".join(ser(n) for n in Raw(txt).parse())
        except Exception as e:  # noqa: BLE001
            real = "error"
            viol.append({"why": f"exception: {type(e).__name__}: {e} (brace matching)", "page": txt})
        finally:
            P.optimize = old
        hist["brace-texts"] += 1
        hist["brace-tokens-%d" % min(len(toks), 9)] += 1
        reqs.append("braces " + " ".join(toks))
        meta.append((txt, real))
    progress(len(items))
    diffs = []
    for (txt, real), o in zip(meta, Driver("braces").ask(reqs)):
        if real != o.strip():
            diffs.append({"stream": "brace matching", "page": txt, "impl": real, "model": o})
    return diffs, viol, dict(hist)


def run_corpus(chk):
    """minimised past failures run first (each in the guarded runner: they may hang or crash)."""
    f = common.ROOT / "corpus" / "C03" / "known.json"
    if not f.exists():
        return []
    items = [(e["lang"], e["page"]) for e in json.load(open(f))]
    bad, _, _ = guarded_search(chk, items, nproc=4)
    chk.coverage["corpus_inputs"] = len(items)
    return bad


def replay(chk, data):
    from . import build_repo

    build_repo.overlay_all()
    if "page" in data and "lang" in data:
        st, detail, dt, n = expand_once(data["lang"], data["page"])
        chk.say(f"replay: {data['page']!r} [{data['lang']}] -> {st} {detail} ({dt:.3f} s, {n} chars)")
        if st != "ok":
            chk.violation("C03 violated: " + st + " " + detail, data)
        return
    if "templates" in data:
        from . import templ_common as tc

        out, _, _ = tc.expand_real(data["page"], data["templates"], data.get("limit", 100))
        chk.say(f"replay: -> {out!r}")
        if isinstance(out, tuple):
            chk.violation("C03 violated: expansion raised " + out[1], data)
        return
    chk.say("replay: nothing to run for this file (a broken proof/correspondence without failing input)")


def run(chk: common.Check):
    from . import build_repo, gen_tables

    build_repo.overlay_all()
    if chk.replay:
        replay(chk, json.load(open(chk.replay)))
        return
    tier = chk.tier
    rng = chk.rng
    t = gen_tables.gen_c03()
    res = common.lean_prove(PROP_MODULES, tier)
    trusted = [
        "Lean 4 kernel; axioms propext, Quot.sound, Classical.choice only (audited per theorem on this run)",
        "hand-written model lean/MwVerif/Model/Templ.lean of evaluate.pyx (flatten, recursion counter, ArgumentList.get, "
        "insert_implicit_newlines, _expand) and nodes.pyx (Template, Variable, IfNode, IfEqNode, SwitchNode), tied to /repo by "
        "the correspondence run on this tree's compiled extensions",
        "translator: Gen/Magics.lean by introspection (inspect.signature) of the live resolver classes and node registry",
        "hand-written model lean/MwVerif/Model/Braces.lean of the brace matcher of templ/parser.py (parse, parse_open_brace, "
        "_handle_closing_braces_for_template_or_variable, _consume_closing_braces, link counting), tied by correspondence on all short and "
        "random longer brace texts tokenized by the real tokenizer; what a template/parameter node is made of is abstract there",
        "the bodies of the individual magic words / parser functions, argument splitting and the tokenizer are "
        "NOT modelled: they are covered by the exhaustive name x argument-count x shape run and the fuzz stream (real code, oracle)",
        "argument-value/name caching of ArgumentList and optimize() change only *where* the recursion limit strikes: outputs are "
        "compared exactly when the real run never hit the limit (model run without limit), else only for being strings",
        "harness/c03.py, harness/templ_common.py (generators, budgets: %.1f s CPU, 4000+40*|input| characters)" % CPU_BUDGET,
    ]
    chk.proof_coverage(res, trusted)

    # --- correspondence
    ncorr = 40000 if tier == "thorough" else 4000
    corpus_bad = run_corpus(chk)
    diffs, cviol, chist, ncorr = correspondence(chk, ncorr)

    # --- brace matching: every text of <= 3 (thorough 4) lexemes, then random longer ones
    import itertools

    from . import guard
    k = 4 if tier == "thorough" else 3
    bitems = [t for n in range(1, k + 1) for t in itertools.product(range(len(BRACE_ALPHA)), repeat=n)]
    bitems += [chk.seed * 10_000_000 + 4_000_000 + i for i in range(100000 if tier == "thorough" else 12000)]
    rb, cb = guard.guarded_run(str(chk.mkscratch()), "harness.c03:braces_worker", bitems, nproc=16, hard_timeout=120)
    bhist = Counter()
    for d, v, h in rb:
        diffs += d
        cviol += v
        bhist.update(h)
    for item, kind, detail in cb:
        cviol.append({"why": f"{kind}: {detail} (brace matching)", "page": repr(item)})

    # --- search on the real code
    rows, names, aliases = registered_names()
    items = name_space(rng, names, tier, full=True)
    items += name_space(rng, aliases if tier == "thorough" else rng.sample(aliases, min(len(aliases), 400)), tier, full=False)
    eitems, ops = expr_space(rng, tier)
    items += eitems
    items += pair_space(rng, names, tier)
    items += recursion_space(names)
    items += time_space()
    fz = fuzz_space(rng, 60000 if tier == "thorough" else 6000, names)
    items += fz
    rng.shuffle(items)
    bad, shist, tmax = guarded_search(chk, items)

    chk.coverage.update({
        "evaluations": ncorr + len(items),
        "distinct_nontrivial": len({p for _, p in items}),
        "rule": "search: every registered name (resolver methods, dummy words, node classes; lower and upper case) x argument count 0..3 x "
                f"{len(SHAPES)} argument shapes (quick: all shapes for 0..1 arguments, every shape in every position for 2..3; thorough: full "
                "product for 2, 300 sampled triples for 3) in colon and pipe form; site aliases of all bundled sites (quick: 400 sampled); "
                "a self-including template reached through an argument of every registered name, with the same recursion before and after it; "
                f"#expr: every operator of expr.py x {len(NUMS)} number shapes (unary, binary, #ifexpr); raw fuzz over the template alphabet. "
                "correspondence: universes of 1-4 templates over words/numbers, positional/named/duplicate arguments, defaults, #if/#ifeq/"
                "#switch, list markers, unbalanced braces, all call graphs incl. cycles, limits 2..100. non-trivial = distinct inputs",
        "traces_validated_against_impl": ncorr + bhist.get("brace-texts", 0),
        "brace_matching_histogram": dict(bhist),
        "correspondence_differences": len(diffs),
        "correspondence_histogram": dict(chist),
        "search_histogram": dict(shist),
        "max_cpu_seconds_one_call": round(tmax, 3),
        "registered_names": len(names), "site_aliases": len(aliases), "expr_operators": ops,
        "dispatch_table_rows": len(rows),
        "samples": [p for _, p in items[:5]],
    })
    chk.assumptions += [
        "markup nesting within the interpreter stack (the property excludes deeper nesting)",
        "CPU budget per call is a threshold on process time, two orders of magnitude above the typical cost",
    ]
    viol = [{"why": f"{b['status']}: {b['detail']}", **b} for b in corpus_bad + bad] + cviol
    seen = set()
    for v in viol:
        key = (v["why"].split(":")[0], v.get("page", "")[:20])
        if key in seen or len(seen) >= 3:
            continue
        seen.add(key)
        chk.violation("C03 violated: " + v["why"] + " on " + repr(v.get("page"))[:200], {"kind": "impl-oracle", **v},
                      sig={"kind": v["why"].split(":")[0], "page": v.get("page")})
    if viol:
        return
    broken = []
    if not res.ok:
        broken.append({"kind": "lean", "failed": res.failed_targets, "bad_axioms": res.bad_axioms, "forbidden": res.forbidden_hits,
                       "log_tail": res.log[-1500:]})
    if diffs:
        broken.append({"kind": "correspondence", "count": len(diffs), "first": diffs[0]})
    if broken:
        chk.violation("C03 is no longer shown to hold: " + ", ".join(b["kind"] for b in broken)
                      + " broke; the oracles (no exception, string, budgets) found no failing input",
                      {"broken": broken, "theorems": PROP_MODULES}, no_input=True)
