"""Run a worker function over shards of items in child processes, surviving what the code under
test can do to a process: a hang (C-level loop that no signal interrupts), a crash of the
interpreter (abort, segfault), runaway work.  The child reports the index it is working on to a
progress file; when a child dies or stalls, the item it was on is reported as the culprit and
the rest of the shard is restarted."""
from __future__ import annotations

import importlib
import json
import multiprocessing as mp
import os
import pickle
import time


class Progress:
    def __init__(self, path, stop_path):
        self.path = path
        self.stop_path = stop_path

    def __call__(self, i):
        with open(self.path, "w") as f:
            f.write(json.dumps([i, time.time()]))

    def stop_requested(self):
        return os.path.exists(self.stop_path)


def _entry(target, items, extra, progress_path, stop_path, result_path):
    modname, fname = target.split(":")
    fn = getattr(importlib.import_module(modname), fname)
    prog = Progress(progress_path, stop_path)
    prog(-1)
    res = fn(items, extra, prog)
    tmp = result_path + ".tmp"
    with open(tmp, "wb") as f:
        pickle.dump(res, f)
    os.replace(tmp, result_path)


def guarded_run(scratch, target, items, extra=None, nproc=16, hard_timeout=30.0, startup_timeout=180.0,
                stop_when=None, min_shard=40):
    """-> (results, culprits). `target` = "module:function" with signature fn(items, extra, progress)
    calling progress(i) before item i and checking progress.stop_requested() now and then.
    results: the list of values the worker calls returned; culprits: [(item, 'hang'|'crash', detail)].
    stop_when(results, culprits) -> bool asks the remaining workers to stop early."""
    ctx = mp.get_context("spawn")
    nproc = max(1, min(nproc, len(items) // min_shard + 1))
    shards = [items[i::nproc] for i in range(nproc)]
    stop_path = os.path.join(scratch, f"guard-stop-{os.getpid()}-{time.time_ns()}")
    results, culprits = [], []
    todo = [sh for sh in shards if sh]
    serial = 0
    running = []

    def start(sh):
        nonlocal serial
        serial += 1
        base = os.path.join(scratch, f"guard-{os.getpid()}-{serial}")
        p = ctx.Process(target=_entry, args=(target, sh, extra, base + ".progress", stop_path, base + ".result"))
        p.start()
        running.append({"p": p, "items": sh, "base": base, "t0": time.time()})

    for sh in todo:
        start(sh)
    while running:
        time.sleep(0.1)
        for r in list(running):
            p, base, sh = r["p"], r["base"], r["items"]
            alive = p.is_alive()
            try:
                i, t = json.loads(open(base + ".progress").read())
            except Exception:  # noqa: BLE001
                i, t = -1, r["t0"]
            if not alive:
                running.remove(r)
                p.join()
                if os.path.exists(base + ".result"):
                    with open(base + ".result", "rb") as f:
                        results.append(pickle.load(f))
                else:
                    _culprit(culprits, sh, i, "crash", f"the interpreter died (exit code {p.exitcode})")
                    _restart(start, sh, i)
                _cleanup(base)
                continue
            # a busy machine must not look like a hang: an item is a hang when the worker has burnt `limit` seconds of CPU on
            # it, or when nothing has happened for six times that long on the wall clock (a worker that waits forever)
            limit = startup_timeout if i < 0 else hard_timeout
            cpu = _cpu_seconds(p.pid)
            if r.get("mark_i") != i:
                r["mark_i"], r["mark_cpu"] = i, cpu
            burnt = cpu - r.get("mark_cpu", cpu)
            waited = time.time() - t
            if burnt > limit or waited > 6 * limit:
                p.kill()
                p.join()
                running.remove(r)
                _culprit(culprits, sh, i, "hang", (f"no result after {burnt:.0f} s of CPU time" if burnt > limit
                                                   else f"no result after {waited:.0f} s of wall time (the worker is not running)"))
                _restart(start, sh, i)
                _cleanup(base)
        if stop_when is not None and not os.path.exists(stop_path) and stop_when(results, culprits):
            open(stop_path, "w").write("stop")
    if os.path.exists(stop_path):
        os.unlink(stop_path)
    return results, culprits


def _cpu_seconds(pid):
    """user + system CPU time of the process so far (0 if it cannot be read)."""
    try:
        f = open(f"/proc/{pid}/stat").read().rsplit(")", 1)[1].split()
        return (int(f[11]) + int(f[12])) / os.sysconf("SC_CLK_TCK")
    except Exception:  # noqa: BLE001
        return 0.0


def _culprit(culprits, sh, i, kind, detail):
    if 0 <= i < len(sh):
        culprits.append((sh[i], kind, detail))
    else:
        culprits.append((None, kind, detail + " before the first item (worker start-up)"))


def _restart(start, sh, i):
    if i < 0:
        return                      # start-up failure: do not loop
    if i + 1 < len(sh):
        start(sh[i + 1:])
    if i > 0:
        start(sh[:i])               # their results were lost with the process


def _cleanup(base):
    for suf in (".progress", ".result", ".result.tmp"):
        try:
            os.unlink(base + suf)
        except OSError:
            pass
