"""C14 — what is written into a collection archive is what is read back.

L1  lean/MwVerif/Props/C14.lean over Model/Archive.lean
L2  correspondence through the property's observe_at:
    FsOutput.write_pages/close -> zip_dir -> wiki.make_wiki(zip).wiki.get_page /
    normalize_and_get_page / get_disk_path;  revisions-1.txt vs Model.writeStream of the
    de-duplicated records; Model.readStream of the file; Model.buildIndex lookups vs the real
    lookups; Model.fsEscape vs unorganized.fs_escape
L3  oracle: the round-trip law on the real path
"""
from __future__ import annotations

import json
import os
import random
import shutil
import tempfile
from collections import Counter

from . import common
from .common import Driver, enc, dec

LEVEL = "proof"
PROP_MODULES = ["MwVerif.Props.C14"]
SEP = "\n\x0c --page-- "

TEXTS = [
    "", "plain text", "line1\nline2\n", "cr\rlf\r\nend\r", " --page-- not a separator", "\n --page-- x\n",
    "x\x0c --page-- in the middle is fine\nafter newline only with form feed: no",
    "tail\n\x0c --page--", "tail\n\x0c --page", "tail\n", "\n", "\x0c", "ünï¢ödé 日本語 \U0001f600", "{{template|a=b}} [[Link]]",
    "x" * 3000, "--page--", "\n\x0c--page-- ", "a\n\x0c --pag", "{\"title\": \"fake\"}", "ends with newline and ff\n\x0c",
]


def siteinfo(lang):
    return json.load(open(common.REPO / f"src/mwlib/network/known_sites/siteinfo-{lang}.json"))


def gen_case(rng, lang="en"):
    si = siteinfo(lang)
    nsnames = {ns["id"]: ns["*"] for ns in si["namespaces"].values()}
    letters = "abcxyzÄöüßéжЖ日本ıσ-.~ 019"
    titles = []
    for _ in range(rng.randint(2, 6)):
        ns = rng.choice([0, 0, 0, 1, 10, 6, 14, 4])
        w = "".join(rng.choice(letters) for _ in range(rng.randint(1, 8))).strip(" ")
        w = " ".join(w.split()) or "x"
        w = w[0:1].upper() + w[1:]
        t = (nsnames[ns] + ":" if nsnames[ns] else "") + w
        titles.append((t, ns))
    titles = list(dict.fromkeys(titles))
    revids = rng.sample(range(1, 60), rng.randint(3, 12))
    recs = []
    for rv in revids:
        t, ns = rng.choice(titles)
        recs.append({"title": t, "ns": ns, "revid": rv if rng.random() > 0.08 else None,
                     "text": rng.choice(TEXTS) + (str(rv) if rng.random() < 0.7 else "")})
    # some duplicates of an already written revid (must be skipped by the writer)
    for _ in range(rng.randint(0, 2)):
        r = dict(rng.choice(recs))
        r["text"] = "DUP" + r["text"]
        recs.insert(rng.randrange(len(recs) + 1), r)
    batches = []
    i = 0
    while i < len(recs):
        k = rng.randint(1, 4)
        batches.append(recs[i:i + k])
        i += k
    redirects = {}
    for _ in range(rng.randint(0, 2)):
        src = "Redir " + "".join(rng.choice("abc") for _ in range(3))
        redirects[src] = rng.choice(titles)[0]
    images = []
    for _ in range(rng.randint(0, 3)):
        w = "".join(rng.choice(letters) for _ in range(rng.randint(1, 6))).strip(" ")
        w = " ".join(w.split()) or "i"
        images.append(nsnames[6] + ":" + w[0:1].upper() + w[1:] + rng.choice([".png", ".jpg", ".svg", ""]))
        if rng.random() < 0.4:      # a second image with the same base name and another (or differently written) extension
            images.append(nsnames[6] + ":" + w[0:1].upper() + w[1:] + rng.choice([".png", ".gif", ".svg", ".tif", ".tiff", ".jpg", ".PNG", ".jpeg"]))
    return {"lang": lang, "batches": batches, "redirects": redirects, "images": list(dict.fromkeys(images))}


def spellings(rng, title, si):
    out = {title, title.replace(" ", "_"), "  " + title + " ", title[0:1].lower() + title[1:]}
    if ":" in title:
        nsn, rest = title.split(":", 1)
        ids = [ns["id"] for ns in si["namespaces"].values() if ns["*"] == nsn]
        if ids:
            alts = [ns.get("canonical") for ns in si["namespaces"].values() if ns["id"] == ids[0]]
            alts += [a["*"] for a in si.get("namespacealiases", []) if a["id"] == ids[0]]
            for a in alts:
                if a:
                    out.add(a + ":" + rest)
                    out.add(a.upper() + ": " + rest.replace(" ", "_"))
            out.add(nsn.lower() + ":" + rest[0:1].lower() + rest[1:])
    return sorted(out)


def run_real(case, scratch, known_only=False):
    """The property's path on the real code. Returns observations."""
    from mwlib.network.fetch import FsOutput
    from mwlib.apps.buildzip import zip_dir
    from mwlib.core import wiki

    d = tempfile.mkdtemp(dir=scratch)
    old_tmp = tempfile.tempdir
    tempfile.tempdir = d
    try:
        p = os.path.join(d, "nu")
        out = FsOutput(p)
        si = siteinfo(case["lang"])
        out.dump_json(nfo={"format": "nuwiki", "base_url": "http://x.invalid/w/", "script_extension": ".php"})
        out.write_siteinfo(si)
        for b in case["batches"]:
            pages = {}
            for i, r in enumerate(b):
                rev = {"*": r["text"]}
                if r["revid"] is not None:
                    rev["revid"] = r["revid"]
                pages[str(i)] = {"title": r["title"], "ns": r["ns"], "revisions": [rev]}
            out.write_pages({"pages": pages})
        out.write_redirects(case["redirects"])
        for k, img in enumerate(case["images"]):
            with open(out.get_imagepath(img), "wb") as f:
                f.write(b"IMG%d" % k)
        out.close()
        stream = open(os.path.join(p, "revisions-1.txt"), "rb").read().decode("utf-8")
        stored_images = sorted(os.listdir(os.path.join(p, "images")))
        z = zip_dir(p, os.path.join(d, "c.zip"))
        obs = {"stream": stream, "stored_images": stored_images}
        try:
            env = wiki.make_wiki(z)
        except Exception as e:  # noqa: BLE001
            obs["open_error"] = f"{type(e).__name__}: {e}"
            return obs
        w = env.wiki
        page = lambda pg: None if pg is None else {"title": pg.title, "ns": pg.ns, "revid": getattr(pg, "revid", None), "text": pg.rawtext}
        allrecs = [r for b in case["batches"] for r in b]
        obs["by_revid"] = {r["revid"]: page(w.get_page(None, r["revid"])) for r in allrecs if r["revid"] is not None}
        titles = list(dict.fromkeys(r["title"] for r in allrecs))
        rng = random.Random(len(stream))
        obs["by_title"] = {t: page(w.get_page(t)) for t in titles}
        obs["by_spelling"] = {t: {s: page(w.normalize_and_get_page(s, 0)) for s in spellings(rng, t, si)} for t in titles}
        obs["redirects"] = {s: page(w.get_page(s)) for s in case["redirects"]}
        imgs = {}
        for img in case["images"]:
            res = {}
            for s in spellings(rng, img, si):
                pth = w.get_disk_path(s)
                res[s] = None if pth is None else open(pth, "rb").read().decode()
            imgs[img] = res
        obs["images"] = imgs
        return obs
    finally:
        tempfile.tempdir = old_tmp
        shutil.rmtree(d, ignore_errors=True)


def expected(case):
    """reference semantics on the Python side (what the property says)."""
    seen = set()
    written = []
    for b in case["batches"]:
        for r in b:
            if r["revid"] is not None and r["revid"] in seen:
                continue
            if r["revid"] is not None:
                seen.add(r["revid"])
            written.append(r)
    by_revid = {}
    for r in written:
        if r["revid"] is not None:
            by_revid[r["revid"]] = r
    by_title = {}
    for r in written:
        if r["revid"] is None:
            by_title[r["title"]] = r
    for rv in sorted(by_revid, reverse=True):
        r = by_revid[rv]
        by_title.setdefault(r["title"], r)
    return written, by_revid, by_title


def text_in_format(t):
    return SEP not in t


def run(chk: common.Check):
    import logging

    logging.disable(logging.INFO)
    tier = chk.tier
    res = common.lean_prove(PROP_MODULES, tier)
    trusted = [
        "Lean 4 kernel; axioms propext, Quot.sound, Classical.choice only (audited per theorem on this run)",
        "hand-written model lean/MwVerif/Model/Archive.lean of the record stream, the writer's de-duplication, the reader's index and fs_escape; tied to /repo by correspondence",
        "trusted codecs: JSON (meta lines and *.json files), UTF-8 file I/O, zipfile, sqlitedict; the meta line is opaque text to the model",
        "title normalisation is C12's model; spelling lookups are compared on the real path only",
        "harness/c14.py (generator, reference semantics, oracles)",
    ]
    chk.proof_coverage(res, trusted)
    rng = chk.rng
    scratch = str(chk.mkscratch())
    drv = Driver("c14")
    n = 1500 if tier == "thorough" else 150
    hist = Counter()
    viol, diffs = [], []
    reqs, checks = [], []
    evaluations = 0
    cases = []
    cdir = common.CORPUS / "C14"
    if cdir.exists():
        for f in sorted(cdir.glob("*.json")):
            cases += json.load(open(f))["cases"]
    cases += [gen_case(rng, rng.choice(["en", "en", "de", "fr", "ja"])) for _ in range(n)]
    for case in cases:
        allrecs = [r for b in case["batches"] for r in b]
        obs = run_real(case, scratch)
        evaluations += 1
        written, by_revid, by_title = expected(case)
        in_format = all(text_in_format(r["text"]) for r in allrecs)
        starts_ff = any(r["text"].startswith(SEP[1:]) for r in written)
        hist["records"] += len(allrecs)
        hist["cases-with-dups"] += len(written) != len(allrecs)
        hist["cases-with-several-revisions-of-a-title"] += len({r["title"] for r in written}) < len(written)
        if "open_error" in obs:
            v = {"case": case, "why": "archive cannot be opened: " + obs["open_error"]}
            if starts_ff:
                chk.violation(v["why"], {"kind": "impl-oracle", **v}, sig={"kind": "text-starts-with-formfeed-page-marker"})
            elif in_format:
                viol.append(v)
            continue
        # ---- oracle on the real path
        if in_format:
            for rv, r in by_revid.items():
                got = obs["by_revid"].get(rv)
                if got is None or got["text"] != r["text"] or got["title"] != r["title"]:
                    viol.append({"case": case, "why": f"revision {rv} read back as {got!r}, written {r!r}"})
            for t, r in by_title.items():
                got = obs["by_title"].get(t)
                if got is None or got["text"] != r["text"] or got.get("revid") != r["revid"]:
                    viol.append({"case": case, "why": f"title {t!r}: got {got and (got['revid'], got['text'][:30])}, expected newest {r['revid'], r['text'][:30]}"})
                for s, g in obs["by_spelling"][t].items():
                    if g is None or g["text"] != r["text"] or g.get("revid") != r["revid"]:
                        viol.append({"case": case, "why": f"spelling {s!r} of {t!r}: got {g and (g['title'], g['revid'])}, expected revision {r['revid']}"})
            for s, tgt in case["redirects"].items():
                exp = by_title.get(tgt)
                got = obs["redirects"].get(s)
                if exp is not None and (got is None or got["text"] != exp["text"]):
                    viol.append({"case": case, "why": f"redirect {s!r} -> {tgt!r} resolved to {got and got['title']!r}"})
            for k, img in enumerate(case["images"]):
                for s, content in obs["images"][img].items():
                    if content != "IMG%d" % k:
                        viol.append({"case": case, "why": f"image {img!r} looked up as {s!r} gave {content!r}, expected IMG{k}"})
            if len(obs["stored_images"]) - 0 != len(case["images"]):
                viol.append({"case": case, "why": f"{len(case['images'])} distinct image titles stored as {obs['stored_images']}"})
        # ---- correspondence requests
        tix = {t: i for i, t in enumerate(dict.fromkeys([r["title"] for r in allrecs] + list(case["redirects"]) + list(case["redirects"].values())))}
        xix = {}
        def tx(s):
            return xix.setdefault(s, len(xix))
        recline = lambda r: f"{tix[r['title']]},{r['ns']},{'-' if r['revid'] is None else r['revid']},{tx(r['text'])}"
        # (1) de-duplication
        reqs.append("wp " + " ".join(recline(r) for r in allrecs))
        checks.append(("wp", case, " ".join(recline(r) for r in written)))
        # (2) stream bytes
        metas = []
        for r in written:
            rev = {"title": r["title"], "ns": r["ns"]}
            if r["revid"] is not None:
                rev["revid"] = r["revid"]
            metas.append(json.dumps(rev, sort_keys=True))
        reqs.append("write " + ";".join(enc(m) + ";" + enc(r["text"]) for m, r in zip(metas, written)))
        checks.append(("write", case, obs["stream"]))
        # (3) reading the real file's content with the model
        reqs.append("read " + enc(obs["stream"]))
        checks.append(("read", case, list(zip(metas, [r["text"] for r in written])) if in_format and not starts_ff else None))
        # (4) index lookups
        qs = [f"r{rv}" for rv in by_revid] + [f"t{tix[t]}" for t in by_title] + [f"n{tix[s]}" for s in case["redirects"]]
        reqs.append("lookup " + " ".join(recline(r) for r in written) + ";" + " ".join(f"{tix[s]}>{tix[t]}" for s, t in case["redirects"].items()) + ";" + " ".join(qs))
        inv = {v: k for k, v in xix.items()}
        exp = []
        for rv in by_revid:
            g = obs["by_revid"].get(rv)
            exp.append(g)
        for t in by_title:
            exp.append(obs["by_title"].get(t))
        for s in case["redirects"]:
            exp.append(obs["redirects"].get(s))
        checks.append(("lookup", case, (exp, dict(tix), inv, in_format and not starts_ff)))
    outs = drv.ask(reqs)
    for (kind, case, exp), o in zip(checks, outs):
        if kind == "wp":
            if o.strip() != exp.strip():
                diffs.append({"stream": "write_pages de-duplication", "case": case, "model": o, "impl": exp})
        elif kind == "write":
            if dec(o) != exp:
                diffs.append({"stream": "revisions-1.txt", "case": case, "model": dec(o)[:200], "impl": exp[:200]})
        elif kind == "read":
            if exp is None:
                continue
            got = None if o == "valueerror" else [dec(x) for x in o.split(";")] if o else []
            flat = [x for pair in exp for x in pair]
            if got != flat:
                diffs.append({"stream": "readStream", "case": case, "model": got and got[:6], "impl": flat[:6]})
        elif kind == "lookup":
            exps, tix, inv, ok = exp
            if not ok:
                continue
            parts = o.split()
            for g, m in zip(exps, parts):
                if g is None:
                    ms = "none"
                    gs = "none"
                else:
                    gs = (g["title"], g["revid"], g["text"])
                if m == "none":
                    ms = "none"
                else:
                    t, ns, rv, x = m.split(",")
                    ms = ([k for k, v in tix.items() if v == int(t)][0], None if rv == "-" else int(rv), inv[int(x)])
                if gs != ms:
                    diffs.append({"stream": "index lookup", "case": case, "model": ms, "impl": gs})
                    break
    # fs_escape stream
    from mwlib.utils import unorganized

    alpha = "abzAZ09 _-.~/\\:äßж日\U0001f600\t"
    names = ["".join(rng.choice(alpha) for _ in range(rng.randint(0, 10))) for _ in range(6000 if tier == "thorough" else 1500)]
    freqs = []
    for s in names:
        ws = "".join(c for c in set(s) if c.isspace())
        import re
        word = "".join(c for c in set(s + "0123456789_") if re.match(r"\w", c))
        freqs.append("fs " + ";".join(enc(x) for x in (s, ws, word)))
    for s, o in zip(names, drv.ask(freqs)):
        evaluations += 1
        if dec(o) != unorganized.fs_escape(s):
            diffs.append({"stream": "fs_escape", "input": s, "model": dec(o), "impl": unorganized.fs_escape(s)})
    # injectivity on the property's alphabet (canonical titles: no underscore, no edge/double blanks)
    inj_alpha = "abzAZ09 -.~äж日"
    seen_names = {}
    # the three hypotheses of c14_fs_escape_injective about str.isspace and \w, on this interpreter
    import re as _re
    if "~".isspace() or not _re.match(r"\w", "_") or not all(_re.match(r"\w", d) for d in "0123456789"):
        viol.append({"why": "the interpreter's str.isspace / \\w do not satisfy the hypotheses of c14_fs_escape_injective"})
    for _ in range(20000 if tier == "thorough" else 4000):
        t = " ".join("".join(rng.choice(inj_alpha) for _ in range(rng.randint(0, 7))).split())
        if not t:
            continue
        e = unorganized.fs_escape(t)
        if e in seen_names and seen_names[e] != t:
            viol.append({"why": f"distinct titles {seen_names[e]!r} and {t!r} share the file name {e!r}"})
        seen_names[e] = t
    chk.coverage.update({
        "evaluations": evaluations,
        "distinct_nontrivial": hist["cases-with-several-revisions-of-a-title"] + len(seen_names),
        "rule": "cases = random page sets (3..12 revisions of 2..6 titles in several namespaces, Unicode titles, texts incl. '--page--'-like lines, "
                "empty text, CR/LF, near-separator endings; revisions in random order, duplicates, revid-less pages; several write_pages batches; redirects; "
                "image titles) written with FsOutput, zipped, re-opened with wiki.make_wiki; every revid, title, 4-10 spellings per title, redirect and "
                "image spelling looked up. non-trivial = cases with several revisions of one title + distinct escaped file names",
        "traces_validated_against_impl": len(cases),
        "correspondence_differences": len(diffs),
        "oracle_violations": len(viol),
        "histogram": dict(hist),
        "samples": [{"batches": cases[-1]["batches"][:2], "redirects": cases[-1]["redirects"], "images": cases[-1]["images"]}],
    })
    chk.assumptions += ["texts do not contain the record separator; titles contain no '%XX' (excluded by the property)",
                        "page texts do not start with a redirect directive (text-level redirects are a different mechanism)"]
    for v in viol[:2]:
        chk.violation("archive round trip broken: " + v["why"], {"kind": "impl-oracle", **v}, sig={"kind": "roundtrip"})
    if viol:
        return
    broken = []
    if not res.ok:
        broken.append({"kind": "lean", "failed": res.failed_targets, "bad_axioms": res.bad_axioms, "forbidden": res.forbidden_hits, "log_tail": res.log[-1500:]})
    if diffs:
        broken.append({"kind": "correspondence", "count": len(diffs), "first": diffs[0]})
    if broken:
        chk.violation("C14 is no longer shown to hold: " + ", ".join(b["kind"] for b in broken)
                      + " broke; the round-trip oracle on the real path found no failing archive",
                      {"broken": broken, "theorems": PROP_MODULES}, no_input=True)
