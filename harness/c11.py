"""C11 — fetching a collection yields a complete and faithful archive.

L1  lean/MwVerif/Props/C11.lean over Model/Fetch.lean: for every schedule (batch sizes, answer order) the
    work-list ends with exactly the items reachable from the metabook in the "needs" relation, nothing
    queued twice
L2  correspondence: the model's closure on the synthetic wiki's needs-graph (random schedule) vs the set
    of pages/images in the real archive
L3  oracle on the real fetcher: synthetic wikis (articles with several revisions, multi-level templates,
    redirect chains and cycles, images shared between articles, missing pages) are served through a
    subclass of the real API client (only the HTTP layer and the binary download are replaced) with
    random batch sizes / result limits 1..50 (continuation) and random response latencies; the archive
    read back with nuwiki.Adapt must hold every listed article's text, every image used (file,
    description page, metadata), every template, and the contributors.
"""
from __future__ import annotations

import json
import os
import random
import re
import shutil
import tempfile
from collections import Counter

from . import common

LEVEL = "other"
PROP_MODULES = ["MwVerif.Props.C11"]
BASE = "http://wiki.test/w/"


# ----------------------------------------------------------------------------- synthetic wiki

class Wiki:
    def __init__(self):
        self.pages = {}     # title -> dict(ns, pageid, title, revs=[(revid, text)], contributors=[names], anon=int)
        self.files = {}     # "File:X" -> bytes
        self._id = 100

    def add(self, title, texts, ns=0, contributors=(), anon=0):
        self._id += 1
        pageid = self._id + 5000
        revs = []
        for txt in texts:
            self._id += 1
            revs.append((self._id, txt))
        self.pages[title] = {"ns": ns, "pageid": pageid, "title": title, "revs": revs, "contributors": list(contributors), "anon": anon}

    def text_of_rev(self, revid):
        for p in self.pages.values():
            for r, t in p["revs"]:
                if r == revid:
                    return p, t
        return None, None

    def current(self, title):
        p = self.pages.get(title)
        return p["revs"][-1][1] if p else None

    def resolve(self, title):
        """follow redirects; None if missing / leads nowhere / cycle"""
        seen = set()
        while title in self.pages and title not in seen:
            seen.add(title)
            mo = re.match(r"#REDIRECT \[\[(.*?)\]\]", self.current(title))
            if not mo:
                return title
            title = mo.group(1)
        return None

    def templates_of(self, text, depth=0, acc=None):
        acc = set() if acc is None else acc
        for name in re.findall(r"\{\{([^{}|:]+?)\}\}", text):
            t = "Template:" + name
            if t in self.pages and t not in acc and depth < 12:
                acc.add(t)
                self.templates_of(self.current(t), depth + 1, acc)
        return acc

    def expand(self, text, depth=0):
        def repl(mo):
            t = "Template:" + mo.group(1)
            if t not in self.pages or depth > 12:
                return "[[:%s]]" % t
            return self.expand(self.current(t), depth + 1)

        return re.sub(r"\{\{([^{}|:]+?)\}\}", repl, text)

    def images_of(self, text):
        return sorted({"File:" + n for n in re.findall(r"\[\[File:([^\]|]+)", self.expand(text))})


BOTS = ["CleanupBot", "Fixbot"]
USERS = ["Ann", "Bob", "Cy", "Dee", "Eve", "Ümit"]


def gen_wiki(rng):
    w = Wiki()
    nimg = rng.randint(0, 6)
    imgs = ["P%d.png" % i for i in range(nimg)]
    for name in imgs:
        w.add("File:" + name, ["{{Information}} picture %s by [[User:Painter]]" % name], ns=6,
              contributors=rng.sample(USERS + BOTS, rng.randint(1, 3)), anon=rng.randint(0, 2))
        w.files["File:" + name] = b"\x89PNG" + name.encode() * rng.randint(1, 9)
    w.add("Template:Information", ["info box"], ns=10)
    ntpl = rng.randint(0, 5)
    tpls = ["T%d" % i for i in range(ntpl)]
    for i, name in enumerate(tpls):
        body = "tpl %s" % name
        for other in tpls[i + 1:]:
            if rng.random() < 0.4:
                body += " {{%s}}" % other
        if imgs and rng.random() < 0.5:
            body += " [[File:%s|thumb]]" % rng.choice(imgs)
        w.add("Template:" + name, ["old " + body, body] if rng.random() < 0.3 else [body], ns=10)
    narts = rng.randint(1, 5)
    arts = ["Art %d" % i for i in range(narts)]
    for a in arts:
        revs = []
        for k in range(rng.randint(1, 3)):
            body = "text %s rev %d" % (a, k)
            for t in tpls:
                if rng.random() < 0.35:
                    body += " {{%s}}" % t
            for im in imgs:
                if rng.random() < 0.3:
                    body += " [[File:%s]]" % im
            if rng.random() < 0.15:
                body += " {{Nosuchtemplate}}"
            revs.append(body)
        w.add(a, revs, contributors=rng.sample(USERS + BOTS, rng.randint(1, 4)), anon=rng.randint(0, 3))
    # redirects
    redirs = []
    if rng.random() < 0.6:
        w.add("Redir one", ["#REDIRECT [[%s]]" % rng.choice(arts)])
        redirs.append("Redir one")
        if rng.random() < 0.5:
            w.add("Redir two", ["#REDIRECT [[Redir one]]"])
            redirs.append("Redir two")
    if rng.random() < 0.3:
        w.add("Loop a", ["#REDIRECT [[Loop b]]"])
        w.add("Loop b", ["#REDIRECT [[Loop a]]"])
        redirs += ["Loop a"]
    if rng.random() < 0.3:
        w.add("Dangling", ["#REDIRECT [[Nowhere at all]]"])
        redirs.append("Dangling")
    # a redirect with a history: retargeted later, or turned into an article later (its first revision can be pinned)
    if rng.random() < 0.35:
        first = rng.choice(arts)
        if rng.random() < 0.5 and len(arts) > 1:
            later = "#REDIRECT [[%s]]" % rng.choice([a for a in arts if a != first])
        else:
            later = "now an article of its own" + ("".join(" [[File:%s]]" % im for im in imgs[:1]))
        w.add("Redir moved", ["#REDIRECT [[%s]]" % first, later], contributors=["Zed"], anon=1)
    return w, arts, redirs


def gen_metabook_items(rng, w, arts, redirs):
    """[(title, revision|None)]; a redirect's target is not also listed with an older pinned revision."""
    items = []
    pinned_old = set()
    for a in rng.sample(arts, rng.randint(1, len(arts))):
        revs = w.pages[a]["revs"]
        k = rng.random()
        if k < 0.5:
            items.append((a, None))
        elif k < 0.75:
            items.append((a, revs[-1][0]))
        else:
            r = rng.choice(revs)
            items.append((a, r[0]))
            if r is not revs[-1]:
                pinned_old.add(a)
    for r in redirs:
        if rng.random() < 0.6 and w.resolve(r) not in pinned_old:
            items.append((r, None))
    if "Redir moved" in w.pages and rng.random() < 0.7:
        first_target = re.match(r"#REDIRECT \[\[(.*?)\]\]", w.pages["Redir moved"]["revs"][0][1]).group(1)
        if first_target not in pinned_old:
            items.append(("Redir moved", w.pages["Redir moved"]["revs"][0][0]))      # pinned to the revision that redirects
    if rng.random() < 0.3:
        items.append(("Missing page", None))
    rng.shuffle(items)
    return items


# ----------------------------------------------------------------------------- the API double

def make_api_class():
    import gevent

    from mwlib.network import sapi

    siteinfo = json.load(open(os.path.join(os.path.dirname(sapi.__file__), "known_sites", "siteinfo-en.json")))

    class FakeApi(sapi.MwApi):
        wiki = None
        request_limit = 2
        result_limit = 2
        rng = None
        log = None

        def __init__(self, apiurl, *args, **kw):
            super().__init__(apiurl, *args, **kw)
            self.api_request_limit = self.request_limit
            self.api_result_limit = self.result_limit
            self.rvlimit = max(1, self.result_limit)

        def _nap(self, kind, kw):
            self.log.append(kind)
            gevent.sleep(self.rng.choice([0, 0.0005, 0.001, 0.002, 0.004]))

        def _request(self, **kw):
            kw = {k: (v.decode() if isinstance(v, bytes) else v) for k, v in kw.items()}
            return json.dumps(self.serve(kw))

        def _post(self, **kw):
            kw = {k: (v.decode() if isinstance(v, bytes) else v) for k, v in kw.items()}
            return self.serve(kw)

        def serve(self, kw):
            action = kw["action"]
            if action == "expandtemplates":
                self._nap("expand", kw)
                return {"expandtemplates": {"wikitext": self.expand_request(kw["text"], kw.get("title"))}}
            if action == "parse":
                self._nap("parse", kw)
                return {"parse": {"text": {"*": "<div><p>rendered</p></div>"}}}
            if kw.get("meta") == "siteinfo":
                self._nap("siteinfo", kw)
                return {"query": siteinfo}
            prop = kw.get("prop", "")
            if prop == "revisions" and "content" in kw.get("rvprop", ""):
                return self.q_pages(kw)
            if prop == "categories":
                self._nap("categories", kw)
                return {"query": {"pages": {}}}
            if prop.startswith("imageinfo"):
                return self.q_imageinfo(kw)
            if prop == "contributors":
                return self.q_contributors(kw)
            if prop in ("revisions|templates|images", "revisions|templates", "images", ""):
                return self.q_used(kw)
            raise RuntimeError("synthetic wiki: unsupported request %r" % (kw,))

        def expand_request(self, text, title):
            # by title: the fetcher sends "{{:Title}}" / "{{Title}}"; by revision: the revision's text
            if title is not None and text in ("{{:%s}}" % title, "{{%s}}" % title):
                target = self.wiki.resolve(title)
                if target is None:
                    return ""
                return self.wiki.expand(self.wiki.current(target))
            return self.wiki.expand(text)

        def _lookup(self, kw):
            wiki = self.wiki
            found, redirects, missing = [], [], []
            if kw.get("revids"):
                for revid in str(kw["revids"]).split("|"):
                    page, txt = wiki.text_of_rev(int(revid))
                    if page is not None:
                        found.append((page, txt, int(revid)))
            for title in [t for t in str(kw.get("titles", "")).split("|") if t]:
                target = title
                if kw.get("redirects"):
                    cur, seen = title, set()
                    while cur in wiki.pages and cur not in seen:
                        seen.add(cur)
                        mo = re.match(r"#REDIRECT \[\[(.*?)\]\]", wiki.current(cur))
                        if not mo:
                            break
                        redirects.append({"from": cur, "to": mo.group(1)})
                        cur = mo.group(1)
                    target = cur if (cur in wiki.pages and wiki.resolve(title) is not None) else None
                    if target is None:
                        missing.append(title if title not in wiki.pages else cur)
                        continue
                if target in wiki.pages:
                    p = wiki.pages[target]
                    found.append((p, wiki.current(target), p["revs"][-1][0]))
                else:
                    missing.append(title)
            # a page is reported once, however many of the asked titles lead to it
            uniq, seen_ids = [], set()
            for p, txt, revid in found:
                if (p["pageid"], revid) not in seen_ids:
                    seen_ids.add((p["pageid"], revid))
                    uniq.append((p, txt, revid))
            rs, seen_r = [], set()
            for r in redirects:
                if (r["from"], r["to"]) not in seen_r:
                    seen_r.add((r["from"], r["to"]))
                    rs.append(r)
            return uniq, rs, missing

        @staticmethod
        def _entry(page):
            return {"pageid": page["pageid"], "ns": page["ns"], "title": page["title"]}

        def _result(self, pages, redirects, missing):
            for i, title in enumerate(missing):
                pages[str(-1 - i)] = {"ns": 0, "title": title, "missing": ""}
            query = {"pages": pages}
            if redirects:
                query["redirects"] = redirects
            return {"query": query}

        def _paged(self, res, pages, pairs, key, contkey, limit, start, mk):
            """continuation: pairs = sorted (pageid, item); emit at most `limit` from `start` on."""
            if start:
                pid, item = start.split("|", 1)
                pairs = [x for x in pairs if x >= (int(pid), item)]
            for pid, item in pairs[:limit]:
                pages[str(pid)].setdefault(key, []).append(mk(item))
            if len(pairs) > limit:
                res.setdefault("query-continue", {})[key] = {contkey: "%s|%s" % pairs[limit]}

        def q_used(self, kw):
            self._nap("used", kw)
            found, redirects, missing = self._lookup(kw)
            pages = {}
            for p, txt, revid in found:
                e = self._entry(p)
                if "revisions" in kw.get("prop", ""):
                    e["revisions"] = [{"revid": revid, "parentid": 0}]
                pages[str(p["pageid"])] = e
            res = self._result(pages, redirects, missing)
            prop = kw.get("prop", "")
            if "images" in prop:
                pairs = sorted((p["pageid"], img) for p, txt, _ in found for img in self.wiki.images_of(txt))
                self._paged(res, pages, pairs, "images", "imcontinue", int(kw.get("imlimit", 10)), kw.get("imcontinue"),
                            lambda t: {"ns": 6, "title": t})
            if "templates" in prop:
                pairs = sorted((p["pageid"], t) for p, txt, _ in found for t in self.wiki.templates_of(txt))
                self._paged(res, pages, pairs, "templates", "tlcontinue", int(kw.get("tllimit", 10)), kw.get("tlcontinue"),
                            lambda t: {"ns": 10, "title": t})
            return res

        def q_pages(self, kw):
            self._nap("pages", kw)
            found, redirects, missing = self._lookup(kw)
            pages = {}
            for p, txt, revid in found:
                rev = {"revid": revid, "*": txt, "user": (p["contributors"] or ["U"])[0], "timestamp": "2020-01-01T00:00:00Z"}
                pages[str(p["pageid"])] = dict(self._entry(p), revisions=[rev])
            return self._result(pages, redirects, missing)

        def q_imageinfo(self, kw):
            self._nap("imageinfo", kw)
            found, redirects, missing = self._lookup(kw)
            pages = {}
            for p, _, _ in found:
                title = p["title"]
                name = title.split(":", 1)[1]
                info = {"url": BASE + "img/" + name, "thumburl": BASE + "img/thumb/%spx-%s" % (kw.get("iiurlwidth"), name),
                        "descriptionurl": "http://wiki.test/wiki/" + title, "size": len(self.wiki.files[title]), "sha1": "sha1-" + name,
                        "user": "Uploader", "comment": "", "width": 100, "height": 80}
                pages[str(p["pageid"])] = dict(self._entry(p), imagerepository="local", imageinfo=[info])
            return self._result(pages, redirects, missing)

        def q_contributors(self, kw):
            self._nap("contributors", kw)
            found, redirects, missing = self._lookup(kw)
            pages = {}
            res = None
            for p, _, _ in found:
                pages[str(p["pageid"])] = dict(self._entry(p), anoncontributors=p["anon"]) if not kw.get("pccontinue") else self._entry(p)
            res = self._result(pages, redirects, missing)
            pairs = sorted((p["pageid"], n) for p, _, _ in found for n in p["contributors"])
            self._paged(res, pages, pairs, "contributors", "pccontinue", int(kw.get("pclimit", 10)), kw.get("pccontinue"),
                        lambda n: {"userid": 1 + abs(hash(n)) % 1000, "name": n})
            return res

    return FakeApi


LISTED = {}


def redirect_of(txt):
    mo = re.match(r"#REDIRECT \[\[(.*?)\]\]", txt or "")
    return mo.group(1) if mo else None


def needs_graph(w, items):
    """the wiki's own closure: what must be in the archive. -> dict item -> successors, roots"""
    succ = {}
    roots = []
    LISTED.clear()
    for title, rev in items:
        if rev is not None:
            p, txt = w.text_of_rev(rev)
            if p is None:
                continue
            key = ("rev", p["title"], rev)
            if redirect_of(txt):                      # a pinned revision that redirects: the target as the wiki serves it now
                target = w.resolve(redirect_of(txt))
                if target is None:
                    continue
                txt = w.current(target)
        else:
            target = w.resolve(title)
            if target is None:
                continue
            txt = w.current(target)
            key = ("page", target)
        roots.append(key)
        LISTED.setdefault(key, (title, rev))
        s = [("image", i) for i in w.images_of(txt)]      # through templates too: the wiki reports them for the page
        succ.setdefault(key, [])
        for x in s:
            if x not in succ[key]:
                succ[key].append(x)
    todo = [x for k in list(succ) for x in succ[k]]
    while todo:
        x = todo.pop()
        if x in succ:
            continue
        if x[0] == "page":
            txt = w.current(x[1]) or ""
            succ[x] = [("image", i) for i in w.images_of(txt)]
        elif x[0] == "image":
            succ[x] = [("descr", x[1])]                   # its description page
        elif x[0] == "descr":
            succ[x] = []
        todo += succ[x]
    return succ, roots


def run_case(seed):
    """-> (problems, info)"""
    import gevent  # noqa: F401
    from mwlib.apps import make_nuwiki
    from mwlib.core import metabook, nuwiki
    from mwlib.network import fetch, sapi

    rng = random.Random(seed)
    w, arts, redirs = gen_wiki(rng)
    items = gen_metabook_items(rng, w, arts, redirs)
    noimages = rng.random() < 0.15
    FakeApi = _API["cls"]
    FakeApi.wiki = w
    FakeApi.request_limit = rng.choice([1, 1, 2, 3, 5, 10, 50])
    FakeApi.result_limit = rng.choice([1, 1, 2, 3, 5, 10, 50])
    FakeApi.rng = random.Random(seed + 1)
    FakeApi.log = []
    sapi.MwApi = FakeApi
    make_nuwiki.mwapi.MwApi = FakeApi

    def fake_download(url, path, temp_path, **kw):
        import gevent as g

        name = re.sub(r"^\d+px-", "", url.rsplit("/", 1)[1])
        FakeApi.log.append("download")
        g.sleep(FakeApi.rng.choice([0, 0.001, 0.003]))
        with open(path, "wb") as out:
            out.write(w.files["File:" + name])

    fetch.download_to_file = fake_download
    fetch.Fetcher.titles_pending_contributor_lookup.clear()
    fetch.Fetcher.title_mapping.clear()

    mb = metabook.Collection()
    mb.items = []
    mb.licenses = []
    mb.wikis = [metabook.WikiConf(baseurl=BASE, ident=None)]
    use_chapters = rng.random() < 0.3
    target = mb
    for i, (title, revision) in enumerate(items):
        if use_chapters and i % 2 == 0:
            target = metabook.Chapter(title="Ch %d" % i, items=[])
            mb.items.append(target)
        if target is mb:
            mb.append_article(title, revision=revision)
        else:
            target.items.append(metabook.Article(title=title, revision=revision))

    tmp = tempfile.mkdtemp(prefix="c11-", dir=str(common.BUILD))
    fsdir = os.path.join(tmp, "nuwiki")
    problems = []
    info = {"articles": len(items), "request_limit": FakeApi.request_limit, "result_limit": FakeApi.result_limit, "noimages": noimages,
            "items": items}
    try:
        opts = {"script_extension": ".php", "imagesize": 800, "noimages": noimages}
        try:
            make_nuwiki.make_nuwiki(fsdir, mb, opts, pod_client=None, status=None)
        except Exception as e:  # noqa: BLE001
            return [f"fetching raised {type(e).__name__}: {str(e)[:200]}"], info
        adapt = nuwiki.Adapt(fsdir)
        succ, roots = needs_graph(w, items)
        needed_images, needed_pages = set(), set()
        for k in succ:
            if k[0] == "image":
                needed_images.add(k[1])
            elif k[0] == "page":
                needed_pages.add(k[1])
        # 1. the listed articles
        for title, revision in items:
            if revision is not None:
                p, src = w.text_of_rev(revision)
                if redirect_of(src):
                    tgt = w.resolve(redirect_of(src))
                    src = w.current(tgt) if tgt else None
            else:
                tgt = w.resolve(title)
                src = w.current(tgt) if tgt else None
            if src is None:
                continue        # missing page / dangling or circular redirect: skipped
            page = adapt.nuwiki.get_page(title, revision)
            if page is None:
                problems.append(f"article {title!r} (revision {revision}) is not in the archive")
                continue
            want_raw, want_exp = src, w.expand(src)
            got = page.rawtext.strip()
            if got not in (want_raw.strip(), want_exp.strip()):
                problems.append(f"article {title!r} (revision {revision}): stored text {got[:60]!r} is not the text the wiki serves {want_raw[:60]!r}")
        # 2. templates: articles are stored expanded (the wiki expands them), template pages are not part of the archive
        # 3. images
        if not noimages:
            for img in sorted(needed_images):
                path = adapt.get_disk_path(img)
                if path is None:
                    problems.append(f"image {img}: file missing")
                elif open(path, "rb").read() != w.files[img]:
                    problems.append(f"image {img}: file content differs")
                nfo = adapt.nuwiki.imageinfo.get(img)
                if not nfo or nfo.get("sha1") != "sha1-" + img.split(":", 1)[1]:
                    problems.append(f"image {img}: metadata missing")
                descr = adapt.get_image_description_page(img)
                if descr is None:
                    problems.append(f"image {img}: description page missing")
                elif descr.rawtext.strip() != w.current(img).strip():
                    problems.append(f"image {img}: description page differs")
        # 4. contributors
        def want_authors(title):
            p = w.pages[title]
            names = sorted({n for n in p["contributors"] if not n.lower().endswith("bot")})
            if names or p["anon"]:
                names.append("ANONIPEDITS:%d" % p["anon"])
            return names

        authors_db = getattr(adapt.nuwiki, "authors", None)
        for title, revision in items:
            tgt = w.resolve(title) if revision is None else (w.text_of_rev(revision)[0] or {}).get("title")
            if revision is not None and redirect_of(w.text_of_rev(revision)[1]):
                tgt = w.resolve(redirect_of(w.text_of_rev(revision)[1]))
            if not tgt:
                continue
            got = authors_db[tgt] if authors_db is not None else None
            if got is None and authors_db is not None:
                got = authors_db[title]
            if sorted(got or []) != sorted(want_authors(tgt)):
                problems.append(f"contributors of article {tgt!r}: stored {got!r}, the wiki reports {want_authors(tgt)!r}")
        if not noimages:
            for img in sorted(needed_images):
                got = authors_db[img] if authors_db is not None else None
                if sorted(got or []) != sorted(want_authors(img)):
                    problems.append(f"contributors of image {img}: stored {got!r}, the wiki reports {want_authors(img)!r}")
        info["needs"] = {"pages": sorted(needed_pages), "images": sorted(needed_images)}
        info["graph"] = (succ, roots)
        info["requests"] = dict(Counter(FakeApi.log))
        # what the archive holds (for the correspondence with the model)
        stored = set()
        for k in succ:
            if k[0] == "image":
                if noimages or adapt.get_disk_path(k[1]) is not None:
                    stored.add(k)
            elif k[0] == "descr":
                if noimages or adapt.get_image_description_page(k[1]) is not None:
                    stored.add(k)
            elif k[0] == "rev":
                if adapt.nuwiki.get_page(k[1], k[2]) is not None:
                    stored.add(k)
            else:
                lt = LISTED.get(k, (k[1], None))
                if adapt.nuwiki.get_page(lt[0], lt[1]) is not None:
                    stored.add(k)
        info["stored"] = stored
        return problems, info
    finally:
        shutil.rmtree(tmp, ignore_errors=True)


def merge_worker(items, extra, progress):
    """the real sapi.merge_data on random JSON values (answers of a continued query: nested dictionaries and lists, scalars of
    two types, clashing kinds now and then) vs Model.merge."""
    import copy
    import logging

    from . import build_repo

    build_repo.overlay_all()
    logging.disable(logging.WARNING)
    from mwlib.network import sapi

    from .common import Driver

    def gen(rng, depth):
        k = rng.random()
        if depth <= 0 or k < 0.25:
            return rng.choice([rng.randrange(5), "s%d" % rng.randrange(5)])
        if k < 0.55:
            return [gen(rng, depth - 1) for _ in range(rng.randint(0, 3))]
        return {"k%d" % key: gen(rng, depth - 1) for key in rng.sample(range(6), rng.randint(0, 4))}

    def second(rng, a, depth):
        """mostly the same shape as `a` (the next answer of the same query), sometimes another kind."""
        if rng.random() < 0.08:
            return gen(rng, depth)
        if isinstance(a, dict):
            out = {}
            for key in rng.sample(range(6), rng.randint(0, 4)):
                name = "k%d" % key
                out[name] = second(rng, a[name], depth - 1) if name in a else gen(rng, depth - 1)
            return out
        if isinstance(a, list):
            return [gen(rng, depth - 1) for _ in range(rng.randint(0, 3))]
        return rng.choice([rng.randrange(5), "s%d" % rng.randrange(5)]) if rng.random() < 0.3 else (a if rng.random() < 0.5 else type(a)(a) if not isinstance(a, str) else "s9")

    def enc(j):
        if isinstance(j, dict):
            return "{ " + "".join("%s %s " % (k, enc(v)) for k, v in j.items()) + "}"
        if isinstance(j, list):
            return "[ " + "".join(enc(v) + " " for v in j) + "]"
        if isinstance(j, str):
            return "s1.%d" % int(j[1:])
        return "s0.%d" % j

    reqs, meta, hist = [], [], Counter()
    for i, seed in enumerate(items):
        progress(i)
        rng = random.Random(seed)
        a = {"k0": gen(rng, 3)} if rng.random() < 0.5 else gen(rng, 3)
        b = second(rng, a, 3)
        reqs.append("merge %s;%s" % (enc(a), enc(b)))
        dst = copy.deepcopy(a)
        try:
            sapi.merge_data(dst, copy.deepcopy(b))
            real = enc(dst)
        except ValueError:
            real = "error"
        hist["merges"] += 1
        hist["merge-errors"] += real == "error"
        meta.append((a, b, real))
    progress(len(items))
    diffs = []
    for (a, b, real), o in zip(meta, Driver("merge").ask(reqs)):
        if real.split() != o.split():
            diffs.append({"stream": "merge_data", "dst": a, "src": b, "impl": real, "model": o})
    return diffs, [], dict(hist)


_API = {}


def worker(items, extra, progress):
    import contextlib
    import io
    import logging

    logging.disable(logging.WARNING)
    from . import build_repo

    build_repo.overlay_all()
    _API["cls"] = make_api_class()
    from .common import Driver

    bad, hist = [], Counter()
    reqs, meta = [], []
    for i, seed in enumerate(items):
        if i % 16 == 0 and progress.stop_requested():
            break
        progress(i)
        buf = io.StringIO()
        with contextlib.redirect_stdout(buf), contextlib.redirect_stderr(io.StringIO()):
            problems, info = run_case(seed)
        hist["collections"] += 1
        hist["articles"] += info["articles"]
        hist["noimages"] += int(info["noimages"])
        for k, v in info.get("requests", {}).items():
            hist["req-" + k] += v
        for p in problems[:3]:
            bad.append({"seed": seed, "why": p, "items": info["items"], "request_limit": info["request_limit"], "result_limit": info["result_limit"],
                        "noimages": info["noimages"]})
        if not problems and "graph" in info:
            succ, roots = info["graph"]
            keys = sorted(succ, key=repr)
            idx = {k: n for n, k in enumerate(keys)}
            rng = random.Random(seed + 2)
            sched = [rng.randrange(len(keys)) for _ in range(4 * len(keys) + 4)] + list(range(len(keys))) * 4   # page -> image -> description: 3 levels
            reqs.append("closure " + " ".join(str(idx[r]) for r in roots) + ";" + " ".join(
                "%d:%s" % (idx[k], ",".join(str(idx[x]) for x in succ[k])) for k in keys) + ";" + " ".join(map(str, sched)))
            meta.append((seed, sorted(idx[k] for k in info["stored"])))
    progress(len(items))
    diffs = []
    if reqs:
        for (seed, stored), o in zip(meta, Driver("fetch").ask(reqs)):
            model = sorted(int(x) for x in o.split()) if o and o != "queue-not-empty" else o
            if model != stored:
                diffs.append({"seed": seed, "impl_stored": stored, "model_closure": model})
    return bad, diffs, dict(hist)


def replay(chk, data):
    import logging

    logging.disable(logging.WARNING)
    from . import build_repo

    build_repo.overlay_all()
    _API["cls"] = make_api_class()
    if "seed" in data:
        import contextlib
        import io

        with contextlib.redirect_stdout(io.StringIO()), contextlib.redirect_stderr(io.StringIO()):
            problems, info = run_case(data["seed"])
        chk.say(f"replay: {problems[:3] or 'archive complete and faithful'}")
        if problems:
            chk.violation("C11 violated: " + problems[0], data)
        return
    chk.say("replay: nothing to run for this file")


def run(chk: common.Check):
    from . import build_repo, guard

    build_repo.overlay_all()
    if chk.replay:
        replay(chk, json.load(open(chk.replay)))
        return
    tier = chk.tier
    res = common.lean_prove(PROP_MODULES, tier)
    trusted = [
        "Lean 4 kernel; axioms propext, Quot.sound, Classical.choice only (audited per theorem on this run)",
        "hand-written model lean/MwVerif/Model/Fetch.lean of the fetcher's work-list discipline (scheduled set, queues, arbitrary "
        "batches and answer order); the API is abstracted as a needs-graph",
        "NOT modelled: what each API answer is turned into (fetch_used_block, imageinfo handling, description pages per base path, "
        "contributor lookup), the archive writer and reader - checked by the closure oracle on the real fetcher against synthetic wikis",
        "the synthetic wiki (harness/c11.py) answers with the links of the requested revision; the HTTP layer and the binary download "
        "are replaced, everything else is the real client (MwApi.do_request, continuation handling, semaphores) and the real Fetcher",
        "greenlet interleavings are sampled by seeded random latencies, not enumerated",
    ]
    chk.proof_coverage(res, trusted)
    n = 3000 if tier == "thorough" else 300
    items = [chk.seed * 10_000_000 + 1_000_000 + i for i in range(n)]
    mitems = [chk.seed * 10_000_000 + 1_500_000 + k for k in range(60000 if tier == "thorough" else 8000)]
    mr, mc = guard.guarded_run(str(chk.mkscratch()), "harness.c11:merge_worker", mitems, nproc=8, hard_timeout=120)
    mdiffs, mhist = [], Counter()
    for d_, _, h_ in mr:
        mdiffs += d_
        mhist.update(h_)
    r, c = guard.guarded_run(str(chk.mkscratch()), "harness.c11:worker", items, nproc=16, hard_timeout=180, min_shard=8,
                             stop_when=lambda r, c: len(c) >= 2 or sum(len(x[0]) for x in r) >= 8)
    bad, diffs, hist = [], [], Counter()
    for b, d, h in r:
        bad += b
        diffs += d
        hist.update(h)
    for item, kind, detail in c:
        bad.append({"seed": item, "why": f"{kind}: {detail} (the fetch did not terminate or crashed)"})
    chk.coverage.update({
        "evaluations": n,
        "distinct_nontrivial": hist.get("collections", 0),
        "rule": "synthetic wikis: 1-5 articles with 1-3 revisions, 0-5 templates including each other (multi-level), 0-6 images shared "
                "between articles and templates, each with file, description page (using a template) and metadata, contributors incl. "
                "bots and anonymous edits, redirect chains, cycles and dangling redirects, missing pages and templates; metabooks over "
                "them: canonical titles, with current/old/no revision ids, chapters, redirects; API batch size and result limit each "
                "from {1,2,3,5,10,50} with continuation; with and without the no-images option; random response latencies (seeded). "
                "non-trivial = collections fetched",
        "traces_validated_against_impl": hist.get("collections", 0) - len({b['seed'] for b in bad}),
        "correspondence_differences": len(diffs) + len(mdiffs),
        "merge_data_histogram": dict(mhist),
        "histogram": dict(hist),
    })
    seen = set()
    for b in bad:
        k = re.sub(r"[0-9']+", "", b["why"])[:40]
        if k in seen or len(seen) >= 3:
            continue
        seen.add(k)
        chk.violation("C11 violated: " + b["why"], b, sig={"kind": k})
    if bad:
        return
    broken = []
    if not res.ok:
        broken.append({"kind": "lean", "failed": res.failed_targets, "bad_axioms": res.bad_axioms, "forbidden": res.forbidden_hits,
                       "log_tail": res.log[-1500:]})
    if diffs:
        broken.append({"kind": "correspondence", "count": len(diffs), "first": diffs[0]})
    if mdiffs:
        broken.append({"kind": "correspondence(merge_data)", "count": len(mdiffs), "first": mdiffs[0]})
    if broken:
        chk.violation("C11 is no longer shown to hold: " + ", ".join(b["kind"] for b in broken)
                      + " broke; the closure oracle found no incomplete archive",
                      {"broken": broken, "theorems": PROP_MODULES}, no_input=True)
