"""Table rows and cells: the real TableRowParser / TableCellParser on synthetic token lists vs the Lean models
(lean/MwVerif/Model/Rows.lean, Model/Cells.lean), driver mode `table`."""
from __future__ import annotations

import itertools
import random
from collections import Counter

CELL_SYM = ["|", "!", "||", "!!", "<td>", "<th>", "</td>", "bar", "[[", "x", "x"]
ROW_SYM = ["|-", "<tr>", "</tr>", "nl", "c", "c", "x", "x"]
TABLE_SYM = ["{|", "|}", "x", "x"]


def worker(items, extra, progress):
    import logging

    from . import build_repo

    build_repo.overlay_all()
    logging.disable(logging.WARNING)
    from mwlib.parser.refine import parse_table
    from mwlib.parser.token.utoken import Token as T

    from .common import Driver

    def mk_cell_tok(sym, k):
        if sym in ("|", "!", "||", "!!"):
            return T(type=T.t_column, text=sym)
        if sym == "<td>":
            return T(type=T.t_html_tag, rawtagname="td", text="<td>")
        if sym == "<th>":
            return T(type=T.t_html_tag, rawtagname="th", text="<th>")
        if sym == "</td>":
            return T(type=T.t_html_tag_end, rawtagname="td", text="</td>")
        if sym == "bar":
            return T(type=T.t_special, text="|")
        if sym == "[[":
            return T(type=T.t_2box_open, text="[[")
        return T(type=T.t_text, text="x%d" % k)

    def show_cell_tok(t):
        if t.type == T.t_complex_table_cell:
            return ("H(" if t.is_header else "D(") + " ".join(show_cell_tok(c) for c in t.children) + ")"
        if t.type == T.t_column:
            return "||" if t.text in ("||", "!!") else t.text
        if t.type == T.t_special:
            return "bar"
        if t.type == T.t_2box_open:
            return "[["
        if t.type == T.t_html_tag:
            return "<%s>" % t.rawtagname
        if t.type == T.t_html_tag_end:
            return "</td>"
        return t.text

    def mk_row_tok(sym, k):
        if sym == "|-":
            return T(type=T.t_row, text="|-")
        if sym == "<tr>":
            return T(type=T.t_html_tag, rawtagname="tr", text="<tr>")
        if sym == "</tr>":
            return T(type=T.t_html_tag_end, rawtagname="tr", text="</tr>")
        if sym == "nl":
            return T(type=T.t_newline, text="\n")
        if sym == "c":
            return T(type=T.t_column, text="|", _k=k)
        return T(type=T.t_text, text="x%d" % k)

    def show_row_tok(t):
        if t.type == T.t_complex_table_row:
            return "R(" + " ".join(show_row_tok(c) for c in t.children) + ")"
        if t.type == T.t_row:
            return "|-"
        if t.type == T.t_html_tag:
            return "<tr>"
        if t.type == T.t_html_tag_end:
            return "</tr>"
        if t.type == T.t_newline:
            return "nl"
        if t.type == T.t_column:
            return "c%d" % t._k
        return t.text

    class BareTables(parse_table.TableParser):        # pairing only: what happens inside a table is compared separately
        def handle_rows(self, sublist):
            pass

        def find_modifier(self, table):
            pass

        def find_caption(self, table):
            pass

    def mk_table_tok(sym, k, rng):
        if sym == "{|":
            return T(type=T.t_begin_table, text="{|") if rng.random() < 0.6 else T(type=T.t_html_tag, rawtagname="table", text="<table>")
        if sym == "|}":
            return T(type=T.t_end_table, text="|}") if rng.random() < 0.6 else T(type=T.t_html_tag_end, rawtagname="table", text="</table>")
        return T(type=T.t_text, text="x%d" % k)

    def show_table_tok(t):
        if t.type == T.t_complex_table:
            return "T(" + " ".join(show_table_tok(c) for c in t.children) + ")"
        if t.type in (T.t_end_table, T.t_html_tag_end):
            return "|}"
        if t.type in (T.t_begin_table, T.t_html_tag):
            return "{|"
        return t.text

    class KeepCells:                 # rows are compared before their cells are made
        def __init__(self, tokens, xopts):
            pass

    reqs, meta, viol, hist = [], [], [], Counter()
    for i, it in enumerate(items):
        progress(i)
        kind, spec = it
        alpha = {"cells": CELL_SYM, "rows": ROW_SYM, "tables": TABLE_SYM}[kind]
        if isinstance(spec, int):
            rng = random.Random(spec)
            syms = [rng.choice(alpha) for _ in range(rng.randint(0, 12))]
        else:
            rng = random.Random(hash(tuple(spec)) & 0xffff)
            syms = [alpha[k] for k in spec]
        try:
            if kind == "cells":
                toks = [mk_cell_tok(s, k) for k, s in enumerate(syms)]
                req = "cells " + " ".join(("x%d" % k if s == "x" else s) for k, s in enumerate(syms))
                parse_table.TableCellParser(toks, None)
                real = " ".join(show_cell_tok(t) for t in toks)
            elif kind == "tables":
                toks = [mk_table_tok(s, k, rng) for k, s in enumerate(syms)]
                req = "tables " + " ".join(("x%d" % k if s == "x" else s) for k, s in enumerate(syms))
                BareTables(toks, None)
                real = " ".join(show_table_tok(t) for t in toks)
            else:
                toks = [mk_row_tok(s, k) for k, s in enumerate(syms)]
                req = "rows " + " ".join(("x%d" % k if s == "x" else "c%d" % k if s == "c" else s) for k, s in enumerate(syms))
                orig = parse_table.TableCellParser
                parse_table.TableCellParser = KeepCells
                try:
                    parse_table.TableRowParser(toks, None)
                finally:
                    parse_table.TableCellParser = orig
                real = " ".join(show_row_tok(t) for t in toks)
        except Exception as e:  # noqa: BLE001
            viol.append({"why": f"{ {'cells': 'TableCellParser', 'rows': 'TableRowParser', 'tables': 'TableParser'}[kind] } raised {type(e).__name__}: {e}",
                         "text": " ".join(syms)})
            continue
        hist[kind] += 1
        reqs.append(req)
        meta.append((kind, syms, real))
    progress(len(items))
    diffs = []
    for (kind, syms, real), o in zip(meta, Driver("table").ask(reqs)):
        if real.split() != o.split():
            diffs.append({"stream": kind, "tokens": syms, "impl": real, "model": o})
    return diffs, viol, dict(hist)


def all_items(tier, seed):
    k = 5 if tier == "thorough" else 4
    items = []
    for kind, alpha in (("cells", CELL_SYM[:-1]), ("rows", ROW_SYM[:-2] + ["x"])):
        idx = [(CELL_SYM if kind == "cells" else ROW_SYM).index(a) for a in alpha]
        for n in range(0, k + 1):
            items += [(kind, t) for t in itertools.product(idx, repeat=n)]
    for m in range(0, (9 if tier == "thorough" else 7)):
        items += [("tables", t) for t in itertools.product(range(3), repeat=m)]
    n = 40000 if tier == "thorough" else 6000
    items += [("cells", seed * 10_000_000 + 9_100_000 + i) for i in range(n)]
    items += [("rows", seed * 10_000_000 + 9_200_000 + i) for i in range(n)]
    items += [("tables", seed * 10_000_000 + 9_400_000 + i) for i in range(n // 2)]
    return items
