"""C02 — well-formed markup parses to the structure it denotes, text intact and in order.

L1  lean/MwVerif/Props/C02.lean over Model/Sections.lean: for every heading sequence the nested sections
    keep the headings in order, every sub-section is strictly deeper, a section extends over the
    following run of deeper headings
L2  correspondence: Model.nest vs the section forest the real parser builds for heading sequences with
    arbitrary level jumps
L3  oracle on the real parser for the whole grammar: documents generated as trees (sections, paragraphs,
    nested lists, tables with header/data cells and captions, bold/italic/HTML styles, internal and
    external links, references, preformatted lines) are rendered with spelling variants; every word must
    occur once, in order, under exactly the ancestors the document tree denotes - in every bundled language.
"""
from __future__ import annotations

import json
import random
from collections import Counter

from . import common

LEVEL = "other"
PROP_MODULES = ["MwVerif.Props.C02"]
LANGS = ["de", "en", "es", "fr", "it", "ja", "nl", "no", "pl", "pt", "simple", "sv"]


def check_doc(seed):
    from . import doc_common as dc

    rng = random.Random(seed)
    d = dc.Gen(rng).doc()
    text = dc.Render(rng).doc(d)
    lang = rng.choice(LANGS)
    want = dc.denote(d)
    t = dc.parse(text, lang=lang) if rng.random() < 0.5 else dc.parse(text, db=_db(lang))
    got = dc.read_tree(t)
    ww, gw = [w for w, _ in want], [w for w, _ in got]
    if ww != gw:
        lost = [w for w in ww if w not in gw]
        dup = sorted({w for w in gw if gw.count(w) > 1})
        extra = [w for w in gw if w not in ww]
        if lost:
            return f"the words {lost[:4]} are missing from the tree", text, lang
        if dup:
            return f"the words {dup[:4]} occur more than once", text, lang
        if extra:
            return f"the tree contains text that is not in the document: {extra[:4]}", text, lang
        return f"the words are re-ordered: {[w for w, v in zip(gw, ww) if w != v][:4]}", text, lang
    for (w, a), (_, b) in zip(want, got):
        if a != b:
            ks = [k for k in a if a[k] != b[k]]
            return f"the word {w} sits under the wrong {ks[0]}: denoted {a[ks[0]]!r}, built {b[ks[0]]!r}", text, lang
    # the class conversion of the advanced tree (advtree.py): same structure, and no construct of the grammar left generic
    import contextlib
    import io

    from mwlib.parser import advtree

    with contextlib.redirect_stdout(io.StringIO()):
        advtree.build_advanced_tree(t)
    got2 = dc.read_tree(t)
    if got2 != got:
        bad = next(((w, a, b) for (w, a), (_, b) in zip(got, got2) if a != b), None)
        if bad is None:
            return "the advanced tree has other words than the parse tree", text, lang
        ks = [k for k in bad[1] if bad[1][k] != bad[2][k]]
        return f"the word {bad[0]} changed its {ks[0]} in the advanced tree: {bad[1][ks[0]]!r} became {bad[2][ks[0]]!r}", text, lang
    for n in t.allchildren():
        if type(n).__name__ in ("Style", "TagNode"):
            return (f"the advanced tree keeps a generic {type(n).__name__} {n.caption!r} (no node class of its own) around "
                    f"{(n.get_all_display_text() or '')[:30]!r}"), text, lang
    return None, text, lang


_DBS = {}


def _db(lang):
    from . import templ_common as tc

    if lang not in _DBS:
        db = tc.wiki_db({"echo": "{{{1}}}"}, lang)
        db.get_url = lambda *a, **k: None
        _DBS[lang] = db
    return _DBS[lang]


def sections_of(node, out):
    """forest of (level, first title word) in the real tree"""
    for c in node.children:
        if type(c).__name__ == "Section":
            sub = []
            sections_of(c, sub)
            title = ""
            for n in c.children[:1]:
                title = "".join(x.caption or "" for x in n.allchildren() if type(x).__name__ == "Text").split()
                title = title[0] if title else ""
            out.append((c.level, title, sub))
        else:
            sections_of(c, out)


def show_forest(f):
    return " ".join("(%s:%d%s)" % (t[1:], l, (" " + show_forest(s)) if s else "") for l, t, s in f)


def worker(items, extra, progress):
    import logging

    from . import build_repo

    build_repo.overlay_all()
    logging.disable(logging.WARNING)
    from . import doc_common as dc
    from .common import Driver

    bad, hist = [], Counter()
    reqs, meta = [], []
    for i, seed in enumerate(items):
        if i % 32 == 0 and progress.stop_requested():
            break
        progress(i)
        if seed % 4 == 3:
            # heading sequences with arbitrary level jumps
            rng = random.Random(seed)
            levels = [rng.randint(1, 6) for _ in range(rng.randint(1, 12))]
            text = "intro\n\n" + "".join("%s h%d %s\n\nbody%d\n\n" % ("=" * l, k, "=" * l, k) for k, l in enumerate(levels))
            t = dc.parse(text)
            f = []
            sections_of(t, f)
            reqs.append("nest " + " ".join(map(str, levels)))
            meta.append((text, show_forest(f)))
            hist["heading-sequences"] += 1
            continue
        try:
            why, text, lang = check_doc(seed)
        except Exception as e:  # noqa: BLE001
            bad.append({"seed": seed, "text": "", "why": f"parser raised {type(e).__name__}: {e}"})
            continue
        hist["documents"] += 1
        hist["lang-" + lang] += 1
        if why:
            bad.append({"seed": seed, "text": text, "lang": lang, "why": why})
    progress(len(items))
    outs = Driver("sect").ask(reqs)
    diffs = []
    for (text, real), o in zip(meta, outs):
        if real.split() != o.split():
            diffs.append({"text": text, "impl": real, "model": o})
    return bad, diffs, dict(hist)


# ----------------------------------------------------------------------------- list nesting (Model/Lists.lean)

KINDS = "*#:;"


def gen_block(rng):
    """a block of list lines: (prefix, has-colon) - depth jumps, mixed kinds, repeated prefixes."""
    lines = []
    cur = ""
    for _ in range(rng.randint(1, 9)):
        k = rng.random()
        if k < 0.3:
            pass                                    # same prefix again
        elif k < 0.5 and len(cur) < 4:
            cur += rng.choice(KINDS)                # one deeper
        elif k < 0.7:
            cur = cur[:rng.randint(0, len(cur))]    # back up (possibly to no prefix)
        elif k < 0.85 and cur:
            cur = cur[:-1] + rng.choice(KINDS)      # other kind at the same depth
        else:
            cur = "".join(rng.choice(KINDS) for _ in range(rng.randint(0, 4)))
        lines.append((cur, rng.random() < 0.3))
    return lines


def all_blocks(maxlines, maxpre):
    import itertools

    pres = [""]
    for n in range(1, maxpre + 1):
        pres += ["".join(t) for t in itertools.product(KINDS, repeat=n)]
    kinds = [(p, c) for p in pres for c in (False, True)]
    for n in range(1, maxlines + 1):
        yield from (list(t) for t in itertools.product(kinds, repeat=n))


def block_req(lines):
    return " ".join(p + "." + ("c" if c else "n") for p, c in lines)


def lists_real(lines):
    """the real `ParseLines.analyze` on synthetic complex_line tokens -> the serialisation of Driver/Lists.lean."""
    from mwlib.parser.refine import core

    tok = core.Token

    def mk(pre, i, colon):
        ch = [tok(type=tok.t_text, text="w%d" % i)]
        if colon:
            ch += [tok(type=tok.t_special, text=":"), tok(type=tok.t_text, text="d%d" % i)]
        return tok(type=tok.t_complex_line, lineprefix=pre, children=ch)

    def ser(t):
        if t.type == tok.t_complex_tag and t.tagname in ("ul", "ol"):
            return "(" + {"ul": "*", "ol": "#"}[t.tagname] + "".join("[" + " ".join(ser(c) for c in it.children) + "]" for it in t.children) + ")"
        if t.type == tok.t_complex_style and t.caption in (":", ";"):
            if t.children and all(c.type in (tok.t_text, tok.t_special) for c in t.children):
                return "D" + t.children[0].text[1:]
            return "(" + t.caption + "".join("[" + " ".join(ser(c) for c in it.children) + "]" for it in t.children) + ")"
        if t.type == tok.t_complex_node:
            texts = [c.text for c in t.children if c.type == tok.t_text]
            colon = any(c.type == tok.t_special and c.text == ":" for c in t.children)
            return "L" + texts[0][1:] + ("c" if colon else "")
        return "?" + repr(t)

    toks = [mk(p, i, c) for i, (p, c) in enumerate(lines)]
    pl = core.ParseLines.__new__(core.ParseLines)
    pl.analyze(toks)
    return " ".join(ser(t) for t in toks)


def denoted_pieces(lines):
    """what the markup denotes: (list ancestors, line, part) per piece of text, in source order."""
    out = []
    for i, (p, c) in enumerate(lines):
        out.append((p, "w%d" % i))
        if c:
            out.append((p[:-1] + ":" if p.endswith(";") else p, "d%d" % i))
    return out


def lists_e2e(lines):
    """the block as wikitext through the whole parser -> [(list ancestors, word)] in tree order."""
    from . import doc_common as dc

    text = "".join(p + " w%d" % i + (" : d%d" % i if c else "") + "\n" for i, (p, c) in enumerate(lines))
    out = []

    def walk(n, anc):
        name = type(n).__name__
        if name == "Text":
            for w in (n.caption or "").split():
                if w != ":":
                    out.append((anc, w))
            return
        a = anc
        if name == "ItemList":
            a = anc + ("#" if n.numbered else "*")
        elif name == "Style" and getattr(n, "caption", "") and set(n.caption) <= set(":;"):
            a = anc + n.caption
        for c in n.children:
            walk(c, a)

    walk(dc.parse(text), "")
    return text, out


def lists_worker(items, extra, progress):
    import logging

    from . import build_repo

    build_repo.overlay_all()
    logging.disable(logging.WARNING)
    from .common import Driver

    bad, diffs, hist = [], [], Counter()
    reqs, preqs, meta = [], [], []
    for i, it in enumerate(items):
        if i % 256 == 0 and progress.stop_requested():
            break
        progress(i)
        lines = gen_block(random.Random(it)) if isinstance(it, int) else [tuple(x) for x in it]
        hist["blocks"] += 1
        hist["lines-%d" % min(len(lines), 9)] += 1
        hist["maxdepth-%d" % max(len(p) for p, _ in lines)] += 1
        try:
            real = lists_real(lines)
        except Exception as e:  # noqa: BLE001
            bad.append({"lines": lines, "text": "", "why": f"ParseLines.analyze raised {type(e).__name__}: {e}"})
            continue
        reqs.append("lists " + block_req(lines))
        e2e = None
        if isinstance(it, int) and it % 8 == 0:
            hist["blocks-through-the-whole-parser"] += 1
            text, got = lists_e2e(lines)
            want = denoted_pieces(lines)
            if got != want:
                gw, ww = [w for _, w in got], [w for _, w in want]
                if gw != ww:
                    why = f"list block: text is {'re-ordered' if sorted(gw) == sorted(ww) else 'lost or duplicated'}: {gw} instead of {ww}"
                else:
                    a, b = next((a, b) for a, b in zip(want, got) if a != b)
                    why = f"list block: the word {a[1]} sits under the lists {b[0]!r}, its markup denotes {a[0]!r}"
                bad.append({"lines": lines, "text": text, "why": why})
            e2e = " ".join("%s/%s/%s" % (p, w[1:], "t" if w[0] == "w" else "d") for p, w in got)
            preqs.append(("lpaths " + block_req(lines), e2e, text))
        meta.append((lines, real))
    progress(len(items))
    drv = Driver("lists")
    for (lines, real), o in zip(meta, drv.ask(reqs)):
        if real != o:
            diffs.append({"stream": "ParseLines.analyze", "lines": lines, "impl": real, "model": o})
    for (rq, e2e, text), o in zip(preqs, drv.ask([r for r, _, _ in preqs])):
        if e2e != o:
            diffs.append({"stream": "whole parser vs model paths", "text": text, "impl": e2e, "model": o})
    return bad, diffs, dict(hist)


def replay(chk, data):
    from . import build_repo

    build_repo.overlay_all()
    if "lines" in data:
        lines = [tuple(x) for x in data["lines"]]
        text, got = lists_e2e(lines)
        ok = got == denoted_pieces(lines)
        chk.say(f"replay: {text!r} -> {got}" + ("" if ok else f" instead of {denoted_pieces(lines)}"))
        if not ok:
            chk.violation("C02 violated: " + data.get("why", "list block mis-parsed"), data)
        return
    if "seed" in data and data.get("text"):
        why, text, lang = check_doc(data["seed"])
        chk.say(f"replay: {why or 'structure as denoted'}")
        if why:
            chk.violation("C02 violated: " + why, data)
        return
    chk.say("replay: nothing to run for this file")


def run(chk: common.Check):
    from . import build_repo, guard

    build_repo.overlay_all()
    if chk.replay:
        replay(chk, json.load(open(chk.replay)))
        return
    tier = chk.tier
    res = common.lean_prove(PROP_MODULES, tier)
    trusted = [
        "Lean 4 kernel; axioms propext, Quot.sound, Classical.choice only (audited per theorem on this run)",
        "hand-written models lean/MwVerif/Model/Sections.lean (section nesting of ParseSections), Model/Lists.lean (ParseLines.analyze), "
        "Model/Rows.lean and Model/Cells.lean (TableRowParser / TableCellParser: grouping of tokens into rows and cells, attribute segments, "
        "header flag), each tied by correspondence with the real class on token sequences",
        "NOT modelled: list, table, style, link, reference and paragraph passes - for them the check is the denotation oracle: the "
        "structure a generated document tree denotes vs the structure the real parser builds (harness/doc_common.py: generator, "
        "renderer with spelling variants, denotation, tree reader)",
        "a style nested in itself is outside the grammar (mwlib deliberately reads a repeated opening tag as the closing tag)",
    ]
    chk.proof_coverage(res, trusted)
    n = 24000 if tier == "thorough" else 3000
    items = [chk.seed * 10_000_000 + 9_000_000 + i for i in range(n)]
    r, c = guard.guarded_run(str(chk.mkscratch()), "harness.c02:worker", items, nproc=16, hard_timeout=120,
                             stop_when=lambda r, c: len(c) >= 2 or sum(len(x[0]) for x in r) >= 6)
    bad, diffs, hist = [], [], Counter()
    for b, d, h in r:
        bad += b
        diffs += d
        hist.update(h)
    for item, kind, detail in c:
        bad.append({"seed": item, "text": "", "why": f"{kind}: {detail}"})
    # list nesting: every block of <= 2 (thorough: 3) lines with prefixes of length <= 2, then random longer blocks
    litems = [b for b in all_blocks(3 if tier == "thorough" else 2, 2)]
    litems += [chk.seed * 10_000_000 + 8_000_000 + i for i in range(40000 if tier == "thorough" else 6000)]
    lr, lc = guard.guarded_run(str(chk.mkscratch()), "harness.c02:lists_worker", litems, nproc=16, hard_timeout=120)
    lhist = Counter()
    for b, d, h in lr:
        bad += b
        diffs += d
        lhist.update(h)
    for item, kind, detail in lc:
        bad.append({"lines": item if not isinstance(item, int) else gen_block(random.Random(item)), "text": "", "why": f"{kind}: {detail}"})
    # table rows and cells: every short token sequence + random ones, real parsers vs the Lean models
    from . import table_corr

    titems = table_corr.all_items(tier, chk.seed)
    tr, tc_ = guard.guarded_run(str(chk.mkscratch()), "harness.table_corr:worker", titems, nproc=16, hard_timeout=120)
    thist = Counter()
    for d, v, h in tr:
        diffs += d
        thist.update(h)
        for x in v:
            bad.append({"text": x["text"], "why": x["why"]})
    for item, kind, detail in tc_:
        bad.append({"text": repr(item), "why": f"{kind}: {detail} (table rows/cells)"})
    chk.coverage.update({
        "table_sequences": dict(thist),
        "evaluations": n,
        "distinct_nontrivial": hist.get("documents", 0),
        "rule": "3/4 documents of the recursive grammar (intro blocks, 1-3 sections nested to depth 3 with body text, paragraphs, bullet/"
                "numbered lists nested to depth 2, tables 2-3 x 2-3 with header rows and captions, bold/italic as quotes or HTML, u/s/sup/sub/"
                "small/big, labelled and unlabelled internal links, external links, references, preformatted lines; random blank lines, "
                "one-cell-per-line vs || rows), parsed in one of the 12 languages with or without a wiki database; every word unique. "
                "1/4 heading sequences of 1-12 headings with random levels 1-6 (level jumps) vs Model.nest. non-trivial = documents",
        "traces_validated_against_impl": hist.get("heading-sequences", 0) + lhist.get("blocks", 0) + sum(thist.values()),
        "list_blocks": dict(lhist),
        "list_rule": "blocks of list lines (prefix over * # : ;, with or without ' : description'): every block of <= 2 (thorough 3) lines "
                     "with prefixes of length <= 2, then random blocks of 1-9 lines, depth <= 4 with jumps; the real ParseLines.analyze on "
                     "synthetic line tokens vs Model.analyze (exact tree), and 1/8 of the random blocks as wikitext through the whole "
                     "parser: (list ancestors, word) in tree order vs what the prefixes denote (oracle) and vs the model's paths",
        "correspondence_differences": len(diffs),
        "histogram": dict(hist),
    })
    # a heading sequence whose section forest differs from `Sections.nest` is a concrete mis-parsed document: the Lean
    # function is the proved statement of what the headings denote (c02_sections_*), and the input is real wikitext
    for dd in [x for x in diffs if "stream" not in x and "text" in x][:2]:
        bad.append({"text": dd["text"], "why": f"sections nested as {dd['impl']} although the headings denote {dd['model']}"})
    seen = set()
    for b in bad:
        k = b["why"][:30]
        if k in seen or len(seen) >= 3:
            continue
        seen.add(k)
        chk.violation("C02 violated: " + b["why"], b, sig={"why": b["why"][:30]})
    if bad:
        return
    broken = []
    if not res.ok:
        broken.append({"kind": "lean", "failed": res.failed_targets, "bad_axioms": res.bad_axioms, "forbidden": res.forbidden_hits,
                       "log_tail": res.log[-1500:]})
    if diffs:
        broken.append({"kind": "correspondence", "count": len(diffs), "first": diffs[0]})
    if broken:
        chk.violation("C02 is no longer shown to hold: " + ", ".join(b["kind"] for b in broken)
                      + " broke; the denotation oracle found no mis-parsed document",
                      {"broken": broken, "theorems": PROP_MODULES}, no_input=True)
