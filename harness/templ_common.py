"""Shared by C03 / C04 / C09: the real template expander (compiled from the working tree) next to
the Lean evaluator model (lean/MwVerif/Model/Templ.lean), on generated template universes."""
from __future__ import annotations

import random

NAMES = ["tq1", "tq2", "tq3", "tq4"]
WORDS = ["a", "b", "foo", "Bar", "x1", "42", "7", "0", "zz"]


def ser(node, classes):
    """serialise a real parse tree into the driver's prefix token form."""
    Node, Template, Variable, IfNode, eqmark = classes
    if isinstance(node, str):
        if node is eqmark:
            return "e"
        return "x" + ",".join(str(ord(c)) for c in node)
    t = type(node)
    if t in (tuple, list) or t is Node:
        return f"s{len(node)} " + " ".join(ser(x, classes) for x in node) if len(node) else "s0"
    if t is Template:
        args = node[1]
        return f"t{len(args)} " + ser(node[0], classes) + ("" if not args else " " + " ".join(ser(a, classes) for a in args))
    if t is Variable:
        if len(node) > 1:
            return "v1 " + ser(node[0], classes) + " " + ser(node[1], classes)
        return "v0 " + ser(node[0], classes)
    if t is IfNode:
        return f"i{len(node)} " + " ".join(ser(x, classes) for x in node)
    return "o"


def classes():
    from mwlib.parser.templ.marks import eqmark
    from mwlib.parser.templ.node import Node
    from mwlib.parser.templ.nodes import IfNode, Template, Variable

    return (Node, Template, Variable, IfNode, eqmark)


class UGen:
    """template universes over the grammar: words, parameters (positional/named, with
    defaults), nested calls (positional and named arguments, blanks/newlines around them), #if,
    list markers at line/argument start (implicit newlines), unbalanced braces; any call graph
    including cycles."""

    def __init__(self, rng: random.Random, acyclic=False, unbalanced=True):
        self.rng = rng
        self.acyclic = acyclic
        self.unbalanced = unbalanced

    def ws(self):
        return self.rng.choice(["", "", "", " ", "\n", "  ", " \n"])

    def word(self):
        return self.rng.choice(WORDS)

    def text(self, depth, callable_names, params):
        r = self.rng
        parts = []
        for _ in range(r.randint(1, 3)):
            k = r.random()
            if depth <= 0 or k < 0.35:
                parts.append(self.word())
            elif k < 0.55:
                p = r.choice(params + ["1", "2", "k", "nope"])
                if r.random() < 0.5:
                    parts.append("{{{" + p + "}}}")
                else:
                    parts.append("{{{" + p + "|" + self.text(depth - 1, callable_names, params) + "}}}")
            elif k < 0.8 and callable_names:
                parts.append(self.call(depth - 1, callable_names, params))
            elif k < 0.9:
                c = self.text(depth - 1, callable_names, params) if r.random() < 0.7 else r.choice(["", " ", "0"])
                a = self.text(depth - 1, callable_names, params)
                b = self.text(depth - 1, callable_names, params)
                parts.append("{{#if:" + self.ws() + c + self.ws() + "|" + self.ws() + a + self.ws() + ("|" + b if r.random() < 0.7 else "") + "}}")
            elif k < 0.95:
                parts.append(r.choice(["* ", "# ", ": ", "; ", "{| ", "\n* "]) + self.word())
            elif self.unbalanced:
                parts.append(r.choice(["{{", "}}", "{{{", "}}}", "{", "}", "|", "=", "[[", "]]", "{{tq1", "{{{1"]))
            else:
                parts.append(self.word())
        return r.choice(["", " "]).join(parts)

    def call(self, depth, callable_names, params):
        r = self.rng
        name = r.choice(callable_names)
        args = []
        for _ in range(r.randint(0, 3)):
            v = self.ws() + self.text(depth, callable_names, params) + self.ws()
            if r.random() < 0.4:
                key = r.choice(["k", "m", "1", "2", "x y"])
                args.append(self.ws() + key + self.ws() + "=" + v)
            else:
                args.append(v)
        return "{{" + self.ws() + name + self.ws() + ("|" if args else "") + "|".join(args) + "}}"

    def universe(self):
        r = self.rng
        n = r.randint(1, 4)
        names = NAMES[:n]
        db = {}
        for i, nm in enumerate(names):
            callees = names[i + 1:] if self.acyclic else names
            if r.random() < 0.15:
                callees = callees + ["missing"]
            db[nm] = self.text(r.randint(1, 3), callees, ["1", "2", "k", "m"])
        page = self.text(r.randint(1, 4), names + (["missing"] if r.random() < 0.2 else []), [])
        return page, db


def expand_real(page, db, limit=100):
    """run the real expander; returns (result | ('exc', type), parsed page, parsed templates)."""
    from mwlib.parser.expander import DictDB, Expander

    ex = Expander(page, pagename="Thispage", wikidb=DictDB(dict(db)), recursion_limit=limit)
    trees = {}
    for n in list(db) + ["missing"]:
        trees[n] = ex.get_parsed_template(n)
    try:
        out = ex.expandTemplates()
    except Exception as e:  # noqa: BLE001
        out = ("exc", type(e).__name__, str(e)[:200])
    return out, ex.parsed, trees


def model_request(parsed, trees, limit=100):
    cl = classes()
    parts = [str(limit), ser(parsed, cl)]
    for n, t in trees.items():
        if t is None:
            continue
        parts.append(",".join(str(ord(c)) for c in n) + ":" + ser(t, cl))
    return "expand " + ";".join(parts)
