"""Shared by C03 / C04 / C09: the real template expander (compiled from the working tree) next to
the Lean evaluator model (lean/MwVerif/Model/Templ.lean), on generated template universes."""
from __future__ import annotations

import random

NAMES = ["tq1", "tq2", "tq3", "tq4"]
WORDS = ["a", "b", "foo", "Bar", "x1", "42", "7", "0", "zz", "1", "1.0", "01", "+1", "-0", "0.50", ".5", "7.", "#default"]


def ser(node, classes):
    """serialise a real parse tree into the driver's prefix token form."""
    Node, Template, Variable, IfNode, eqmark, IfEqNode, SwitchNode = classes
    if isinstance(node, str):
        if node is eqmark:
            return "e"
        return "x" + ",".join(str(ord(c)) for c in node)
    t = type(node)
    if t in (tuple, list):
        return f"s{len(node)} " + " ".join(ser(x, classes) for x in node) if len(node) else "s0"
    if t is Node:
        # the base class is not a plain tuple for `#switch` (never a "fast" key): keep it apart
        return "s1 " + (f"s{len(node)} " + " ".join(ser(x, classes) for x in node) if len(node) else "s0")
    if t is Template:
        args = node[1]
        return f"t{len(args)} " + ser(node[0], classes) + ("" if not args else " " + " ".join(ser(a, classes) for a in args))
    if t is Variable:
        if len(node) > 1:
            return "v1 " + ser(node[0], classes) + " " + ser(node[1], classes)
        return "v0 " + ser(node[0], classes)
    if t is IfNode:
        return f"i{len(node)} " + " ".join(ser(x, classes) for x in node)
    if t is IfEqNode:
        return f"q{len(node)} " + " ".join(ser(x, classes) for x in node)
    if t is SwitchNode:
        cases = node[1]
        return f"w{len(cases)} " + ser(node[0], classes) + ("" if not cases else " " + " ".join(ser(a, classes) for a in cases))
    return "o"


def classes():
    from mwlib.parser.templ.marks import eqmark
    from mwlib.parser.templ.node import Node
    from mwlib.parser.templ.nodes import IfEqNode, IfNode, SwitchNode, Template, Variable

    return (Node, Template, Variable, IfNode, eqmark, IfEqNode, SwitchNode)


class UGen:
    """template universes over the grammar: words, parameters (positional/named, with
    defaults), nested calls (positional and named arguments, blanks/newlines around them), #if,
    list markers at line/argument start (implicit newlines), unbalanced braces; any call graph
    including cycles."""

    def __init__(self, rng: random.Random, acyclic=False, unbalanced=True):
        self.rng = rng
        self.acyclic = acyclic
        self.unbalanced = unbalanced

    def ws(self):
        return self.rng.choice(["", "", "", " ", "\n", "  ", " \n"])

    def word(self):
        return self.rng.choice(WORDS)

    def text(self, depth, callable_names, params):
        r = self.rng
        parts = []
        for _ in range(r.randint(1, 3)):
            k = r.random()
            if depth <= 0 or k < 0.35:
                parts.append(self.word())
            elif k < 0.55:
                p = r.choice(params + ["1", "2", "k", "nope"])
                if r.random() < 0.5:
                    parts.append("{{{" + p + "}}}")
                else:
                    parts.append("{{{" + p + "|" + self.text(depth - 1, callable_names, params) + "}}}")
            elif k < 0.8 and callable_names:
                parts.append(self.call(depth - 1, callable_names, params))
            elif k < 0.9:
                c = self.text(depth - 1, callable_names, params) if r.random() < 0.7 else r.choice(["", " ", "0"])
                a = self.text(depth - 1, callable_names, params)
                b = self.text(depth - 1, callable_names, params)
                parts.append("{{#if:" + self.ws() + c + self.ws() + "|" + self.ws() + a + self.ws() + ("|" + b if r.random() < 0.7 else "") + "}}")
            elif k < 0.93:
                a, b = (self.text(depth - 1, callable_names, params) for _ in range(2))
                if r.random() < 0.4:
                    b = a if r.random() < 0.5 else r.choice(["1", "1.0", "01", "+1", "0.50", ".5"])
                    a = a if b is a else r.choice(["1", "1.0", "01", "+1", "0.5", ".50"])
                br = [self.text(depth - 1, callable_names, params) for _ in range(r.randint(0, 3))]
                parts.append("{{#ifeq:" + self.ws() + a + self.ws() + "|" + self.ws() + b + self.ws() + "".join("|" + self.ws() + x + self.ws() for x in br) + "}}")
            elif k < 0.96:
                parts.append(self.switch(depth - 1, callable_names, params))
            elif k < 0.975:
                parts.append(r.choice(["* ", "# ", ": ", "; ", "{| ", "\n* "]) + self.word())
            elif self.unbalanced:
                parts.append(r.choice(["{{", "}}", "{{{", "}}}", "{", "}", "|", "=", "[[", "]]", "{{tq1", "{{{1"]))
            else:
                parts.append(self.word())
        return r.choice(["", " "]).join(parts)

    def switch(self, depth, callable_names, params):
        r = self.rng
        val = self.text(depth, callable_names, params) if r.random() < 0.6 else self.word()
        cases = []
        for _ in range(r.randint(0, 5)):
            k = r.random()
            key = self.word() if k < 0.7 else ("#default" if k < 0.8 else self.text(depth, callable_names, params))
            if r.random() < 0.25:
                cases.append(self.ws() + key + self.ws())              # falls through / default
            else:
                cases.append(self.ws() + key + self.ws() + "=" + self.ws() + self.text(depth, callable_names, params) + self.ws())
        return "{{#switch:" + self.ws() + val + self.ws() + "".join("|" + c for c in cases) + "}}"

    def call(self, depth, callable_names, params):
        r = self.rng
        name = r.choice(callable_names)
        args = []
        for _ in range(r.randint(0, 3)):
            v = self.ws() + self.text(depth, callable_names, params) + self.ws()
            if r.random() < 0.4:
                key = r.choice(["k", "m", "1", "2", "x y"])
                args.append(self.ws() + key + self.ws() + "=" + v)
            else:
                args.append(v)
        return "{{" + self.ws() + name + self.ws() + ("|" if args else "") + "|".join(args) + "}}"

    def universe(self):
        r = self.rng
        n = r.randint(1, 4)
        names = NAMES[:n]
        db = {}
        for i, nm in enumerate(names):
            callees = names[i + 1:] if self.acyclic else names
            if r.random() < 0.15:
                callees = callees + ["missing"]
            db[nm] = self.text(r.randint(1, 3), callees, ["1", "2", "k", "m"])
        page = self.text(r.randint(1, 4), names + (["missing"] if r.random() < 0.2 else []), [])
        return page, db


LIMIT_HITS = [0]


def wiki_db(pages, lang="en"):
    """the repo's DictDB test double completed with what a real wiki database (nuwiki.Adapt) also
    offers and some parser functions use: nshandler, normalize_and_get_image_path."""
    from mwlib.core import nshandling
    from mwlib.network.siteinfo import get_siteinfo
    from mwlib.parser.expander import DictDB

    class DB(DictDB):
        def normalize_and_get_image_path(self, name):
            return None

        def normalize_and_get_page(self, title, defaultns=0):
            raw = self.data_dict.get(title.lower().replace(" ", "_"))
            return None if raw is None else super().normalize_and_get_page(title, defaultns)

    db = DB(dict(pages))
    db.siteinfo = get_siteinfo(lang)
    db.nshandler = nshandling.NsHandler(db.siteinfo)
    return db


class _CountingLog:
    def __init__(self, inner):
        self.inner = inner

    def warning(self, *a, **k):
        LIMIT_HITS[0] += 1

    warn = warning

    def __getattr__(self, n):
        return getattr(self.inner, n)


def expand_real(page, db, limit=100):
    """run the real expander; returns (result | ('exc', type), parsed page, parsed templates).
    LIMIT_HITS[0] counts the TemplateRecursion errors swallowed during this expansion."""
    from mwlib.parser.expander import DictDB, Expander
    from mwlib.parser.templ import evaluate

    if not isinstance(evaluate.log, _CountingLog):
        evaluate.log = _CountingLog(evaluate.log)
    LIMIT_HITS[0] = 0

    ex = Expander(page, pagename="Thispage", wikidb=wiki_db(db), recursion_limit=limit)
    trees = {}
    for n in list(db) + ["missing"]:
        trees[n] = ex.get_parsed_template(n)
    try:
        out = ex.expandTemplates()
    except Exception as e:  # noqa: BLE001
        out = ("exc", type(e).__name__, str(e)[:200])
    return out, ex.parsed, trees


def model_request(parsed, trees, limit=100):
    cl = classes()
    parts = [str(limit), ser(parsed, cl)]
    for n, t in trees.items():
        if t is None:
            continue
        parts.append(",".join(str(ord(c)) for c in n) + ":" + ser(t, cl))
    return "expand " + ";".join(parts)
