"""C06 — every cleaning pass completes on every parsed document.

L1  lean/MwVerif/Props/C06.lean: generated obligations (pass names are methods; every method name the
    cleaner calls exists somewhere it can be called on) + size-decrease theorems for dissolve/remove
L2  translator: Gen/Cleaner.lean from the AST of treecleaner.py/treecleanerhelper.py and the live classes
L3  oracle on the real code: each pass, called directly in the documented order on the tree of every
    generated input, returns without raising, within a CPU budget; the while-loops of the fixed-point passes end (the pass
    returns, also when applied a second time).
"""
from __future__ import annotations

import json
from collections import Counter

from . import common
from .c05 import source_text

LEVEL = "other"
PROP_MODULES = ["MwVerif.Props.C06"]
FIXPOINT = ["fix_nesting", "fix_paragraphs", "remove_breaking_returns"]   # the property names these three (nesting repair, paragraph repair, line-break removal)


def shape(node):
    return (type(node).__name__, getattr(node, "caption", None) if type(node).__name__ == "Text" else None,
            tuple(shape(c) for c in node.children))


def pass_worker(items, extra, progress):
    import contextlib
    import io
    import logging
    import time

    from . import build_repo

    build_repo.overlay_all()
    logging.disable(logging.WARNING)
    from mwlib.parser.treecleaner import TreeCleaner

    from . import clean_common as cc

    bad, hist = [], Counter()
    for i, (kind, seed) in enumerate(items):
        if i % 32 == 0 and progress.stop_requested():
            break
        progress(i)
        text = source_text(kind, seed)
        hist["inputs-" + kind] += 1
        try:
            with contextlib.redirect_stdout(io.StringIO()):
                t = cc.build(text)
        except Exception:  # noqa: BLE001
            hist["parse-raised(C01)"] += 1
            continue
        tc = TreeCleaner(t, save_reports=False, rtl=(seed % 7 == 0))
        for name in TreeCleaner.cleaner_methods:
            fn = getattr(tc, name)
            t0 = time.process_time()
            try:
                with contextlib.redirect_stdout(io.StringIO()), contextlib.redirect_stderr(io.StringIO()):
                    fn(t)
            except Exception as e:  # noqa: BLE001
                bad.append({"kind": kind, "seed": seed, "text": text, "pass": name, "why": f"raised {type(e).__name__}: {str(e)[:200]}"})
                hist["raised"] += 1
                break
            dt = time.process_time() - t0
            hist["pass-calls"] += 1
            if dt > 5.0:
                bad.append({"kind": kind, "seed": seed, "text": text, "pass": name, "why": f"took {dt:.1f} s of CPU"})
            if name in FIXPOINT:
                before = shape(t)
                try:
                    with contextlib.redirect_stdout(io.StringIO()), contextlib.redirect_stderr(io.StringIO()):
                        fn(t)
                except Exception as e:  # noqa: BLE001
                    bad.append({"kind": kind, "seed": seed, "text": text, "pass": name, "why": f"second application raised {type(e).__name__}: {e}"})
                    break
                hist["fixpoint-checks"] += 1
                if shape(t) != before:
                    # not a violation: "reach their fixed point" is about the passes' internal while-loops ending
                    # (remove_breaking_returns is listed three times because one application is not idempotent)
                    hist["second-application-changed-" + name] += 1
    return bad, dict(hist)


def replay(chk, data):
    from . import build_repo

    build_repo.overlay_all()
    if "text" in data:
        bad, _ = pass_worker([(data.get("kind", "doc"), data.get("seed", 0))], None, _NoProgress()) if False else ([], {})
        import contextlib
        import io

        from mwlib.parser.treecleaner import TreeCleaner

        from . import clean_common as cc

        with contextlib.redirect_stdout(io.StringIO()):
            t = cc.build(data["text"])
        tc = TreeCleaner(t, save_reports=False, rtl=(data.get("seed", 0) % 7 == 0))
        for name in TreeCleaner.cleaner_methods:
            try:
                with contextlib.redirect_stdout(io.StringIO()), contextlib.redirect_stderr(io.StringIO()):
                    getattr(tc, name)(t)
            except Exception as e:  # noqa: BLE001
                chk.say(f"replay: pass {name} raised {type(e).__name__}: {e}")
                chk.violation(f"C06 violated: pass {name} raised {type(e).__name__}", data)
                return
        chk.say("replay: every pass completed")
        return
    chk.say("replay: nothing to run for this file")


class _NoProgress:
    def __call__(self, i):
        pass

    def stop_requested(self):
        return False


def run(chk: common.Check):
    from . import build_repo, gen_tables, guard

    build_repo.overlay_all()
    if chk.replay:
        replay(chk, json.load(open(chk.replay)))
        return
    tier = chk.tier
    from mwlib.parser import expander  # noqa: F401

    t = gen_tables.gen_c06()
    from . import nest_corr

    tn = nest_corr.gen_lean()
    res = common.lean_prove(PROP_MODULES, tier)
    trusted = [
        "Lean 4 kernel; axioms propext, Quot.sound, Classical.choice only (audited per theorem on this run)",
        "translator: AST scan of treecleaner.py / treecleanerhelper.py for `x.name(...)` calls against dir() of every node class, the "
        "cleaner, builtin containers and the imported modules (Gen/Cleaner.lean, regenerated on this run): rules out calls of names "
        "that exist nowhere, not calls on an object of the wrong class",
        "the bodies of the passes are not modelled: completion and fixed points are checked by running every pass directly on the "
        "generated input space (documents, trigger documents, fuzz), each call in a guarded child process",
        "tree model (Model/Tree.lean) for the size-decrease theorems, tied by the C05 correspondence",
        "hand-written models of two of the three fixed-point passes: fix_paragraphs (Model/Passes.lean, tied by the C05 primitive "
        "correspondence) and fix_nesting in its default loose mode (Model/Nesting.lean: search order, visible-ancestor rule, the cut "
        "in three), parametric in the class tables which are regenerated from a live TreeCleaner (Gen/Nesting.lean) and tied by a "
        "correspondence run of _fix_nesting / fix_nesting on trees with nesting violations; remove_breaking_returns is not modelled",
    ]
    chk.proof_coverage(res, trusted)
    n = 12000 if tier == "thorough" else 1500
    base = chk.seed * 10_000_000 + 3_000_000
    items = [("doc", base + i) for i in range(n)] + [("trig", base + n + i) for i in range(2 * n)] + [("fuzz", base + 3 * n + i) for i in range(2 * n)]
    r1, c1 = guard.guarded_run(str(chk.mkscratch()), "harness.c06:pass_worker", items, nproc=16, hard_timeout=120,
                               stop_when=lambda r, c: len(c) >= 2 or sum(len(x[0]) for x in r) >= 6)
    bad, hist = [], Counter()
    for b, h in r1:
        bad += b
        hist.update(h)
    for item, kind, detail in c1:
        text = source_text(*item) if item else None
        bad.append({"kind": item[0] if item else None, "seed": item[1] if item else None, "text": text, "pass": "?", "why": f"{kind}: {detail}"})
    # fix_nesting: model vs the real pass (one call and the whole loop) on trees with nesting violations
    nn = 16000 if tier == "thorough" else 2400
    nitems = [chk.seed * 10_000_000 + 3_500_000 + i for i in range(nn)]
    r2, c2 = guard.guarded_run(str(chk.mkscratch()), "harness.nest_corr:worker", nitems, nproc=16, hard_timeout=120)
    ndiffs, nhist = [], Counter()
    for d, v, h in r2:
        ndiffs += d
        nhist.update(h)
        for x in v:
            bad.append({"kind": "nest", "seed": None, "text": x["text"], "pass": "fix_nesting", "why": x["why"]})
    for item, kind, detail in c2:
        import random as _r

        from . import clean_common as _cc
        rng = _r.Random(item)
        bad.append({"kind": "nest", "seed": item, "text": nest_corr.nest_doc(rng) if item % 4 else _cc.fuzz_text(rng), "pass": "fix_nesting",
                    "why": f"{kind}: {detail}"})
    chk.coverage.update({
        "traces_validated_against_impl": sum(v for k, v in nhist.items() if k.startswith("fix_nesting") or k.startswith("_fix_nesting (")),
        "correspondence_differences": len(ndiffs),
        "fix_nesting_histogram": dict(nhist),
        "fix_nesting_tables": tn,
        "evaluations": len(items),
        "distinct_nontrivial": hist.get("pass-calls", 0),
        "rule": "every pass of TreeCleaner.cleaner_methods called directly, in order, on the advanced tree of: documents of the C02 grammar; "
                "the same with the attribute/class/id triggers that switch passes on (overflow:auto with height, region_list, noprint "
                "classes, absolute positioning, wide/nested/single-column tables, colspans incl. invalid ones, named references); markup "
                "fuzz. Oracle: no exception, <= 5 s CPU per call, the three fixed-point passes also return when applied a second time. "
                "non-trivial = pass calls",
        "histogram": dict(hist),
        "called_names": t["calls"], "unknown_called_names": t["unknown"], "passes": len(t["passes"]),
    })
    seen = set()
    for b in bad:
        k = (b["pass"], b["why"][:30])
        if k in seen or len(seen) >= 3:
            continue
        seen.add(k)
        chk.violation(f"C06 violated: pass {b['pass']} {b['why']}", b, sig={"pass": b["pass"], "why": b["why"][:30]})
    if bad:
        return
    broken = []
    if not res.ok:
        broken.append({"kind": "lean", "failed": res.failed_targets, "unknown_called_names": t["unknown"], "bad_axioms": res.bad_axioms,
                       "forbidden": res.forbidden_hits, "log_tail": res.log[-1500:]})
    if ndiffs:
        broken.append({"kind": "correspondence(fix_nesting)", "count": len(ndiffs), "first": ndiffs[0]})
    if broken:
        chk.violation("C06 is no longer shown to hold: " + ", ".join(b["kind"] for b in broken) + " broke ("
                      + ", ".join(res.failed_targets or []) + "); running every pass found no failing input",
                      {"broken": broken, "theorems": PROP_MODULES}, no_input=True)
