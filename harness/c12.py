"""C12 — title normalisation is canonical and idempotent.

L1  lean/MwVerif/Props/C12.lean over Model/Title.lean, parametric in the site and in the
    Unicode primitives (CharOps + laws); sites regenerated from /repo into Gen/Sites.lean
L2  (a) translator for the 12 bundled sites and a character table (every run);
    (b) table-driven lower/upperFirst vs Python on random strings;
    (c) Model.splitname vs NsHandler.splitname on generated titles and on all canonical
        outputs fed back
L3  oracle on NsHandler.splitname alone: idempotence, spelling invariance, shape
"""
from __future__ import annotations

import json
import random
from collections import Counter

from . import common, gen_tables
from .common import Driver, enc, dec

LEVEL = "proof"
PROP_MODULES = ["MwVerif.Props.C12", "MwVerif.Gen.SiteWF"]
MARKS = "‎‏"


def handlers():
    from mwlib.core import nshandling

    hs = {}
    for f in gen_tables.site_files():
        lang = f.split("siteinfo-")[-1][:-5]
        hs[lang] = nshandling.NsHandler(json.load(open(f)))
    return hs


def ns_spellings(rng, h):
    """(spelling, id) pairs: local names, canonical names, aliases in varying case, plus
    words that are not namespaces."""
    si = h.siteinfo
    res = []
    for ns in si["namespaces"].values():
        res.append((ns["*"], ns["id"]))
        if "canonical" in ns:
            res.append((ns["canonical"], ns["id"]))
    for a in si.get("namespacealiases", []):
        res.append((a["*"], a["id"]))
    return res


def case_variants(rng, s):
    out = {s, s.lower(), s.upper(), s.swapcase(), s[:1].lower() + s[1:]}
    return [x for x in out if x.lower() == s.lower()]


def ws_run(rng, alpha_ws, allow_marks=True):
    n = rng.choice([0, 0, 1, 1, 2, 3])
    pool = " _" * 4 + alpha_ws + (MARKS * 2 if allow_marks else "")
    return "".join(rng.choice(pool) for _ in range(n))


def inner_sep(rng):
    return rng.choice([" ", "_", "  ", "__", " _ ", "_ "])


def gen_group(rng, h, letters, alpha_ws, d=0):
    """One canonical title and several spellings of it (same namespace id, same remainder)."""
    spell = ns_spellings(rng, h)
    kind = rng.random()
    words = ["".join(rng.choice(letters) for _ in range(rng.randint(1, 5))) for _ in range(rng.randint(1, 3))]
    if rng.random() < 0.15:
        words[rng.randrange(len(words))] += ":" + rng.choice(letters)
    if kind < 0.7:
        nsname, nsid = rng.choice(spell)
    elif kind < 0.85:
        nsname, nsid = None, None          # no namespace part
    else:
        nsname, nsid = "".join(rng.choice(letters) for _ in range(rng.randint(1, 4))), "word"
    variants = []
    same_id_names = [n for n, i in spell if i == nsid] if isinstance(nsid, int) else [nsname]
    for _ in range(rng.randint(2, 5)):
        rem = inner_sep(rng).join(words) if len(words) > 1 else words[0]
        t = ws_run(rng, alpha_ws)
        # a leading colon only selects the main namespace as default: equivalent spelling
        # iff the default is 0 anyway or an explicit namespace follows
        if rng.random() < 0.2 and (d == 0 or isinstance(nsid, int)):
            t += ":" + ws_run(rng, alpha_ws)
        if isinstance(nsid, int):
            n = rng.choice(same_id_names)
            n = rng.choice(case_variants(rng, n)) if n else n
            n = n.replace(" ", rng.choice([" ", "_", "  "])) if n else n
            t += ws_run(rng, alpha_ws, False) + n + ws_run(rng, alpha_ws, False) + ":" + ws_run(rng, alpha_ws)
        elif nsname is not None:
            t += nsname + ":"          # not a namespace: the text before the colon is part of the title
        t += rem + ws_run(rng, alpha_ws)
        variants.append(t)
    return variants


def classify_nonidempotent(h, t, d, r, r2):
    """known, documented classes of non-idempotence (see DESIGN.md §6 F15/F16)."""
    import re

    def strip(x):
        while True:
            y = x.strip().strip(MARKS)
            if y == x:
                return x
            x = y

    name = re.sub(" +", " ", strip(t.replace("_", " ")))
    if name.startswith(":"):
        name = strip(name[1:])
    if r[2].startswith(":"):
        return "double-colon"
    if ":" in name:
        cand = name.split(":", 1)[0]
        cap = cand[0:1].upper() + cand[1:]
        if cap.lower() != cand.lower():
            return "case-unstable-first-letter"
    return None


def char_laws():
    """The hypotheses of the Lean theorems about Python's Unicode primitives, over ALL code points."""
    bad = Counter()
    examples = {}
    edge = lambda c: c.isspace() or c in MARKS
    for cp in range(0x110000):
        if 0xD800 <= cp <= 0xDFFF:
            continue
        c = chr(cp)
        u = c.upper()
        checks = {
            "upper1-nonempty": len(u) >= 1,
            "upper1-idempotent-on-first": (u[0:1].upper() + u[1:]) == u,
            "upper1-no-new-special": all(not (x in " _:" or edge(x)) or x == c for x in u),
            "upper1-first-not-edge": edge(c) or not edge(u[0]),
            "upper1-of-special-is-identity": (not (c in " _:" or edge(c))) or u == c,
        }
        for k, ok in checks.items():
            if not ok:
                bad[k] += 1
                examples.setdefault(k, []).append(c)
    return dict(bad), {k: v[:5] for k, v in examples.items()}


def run(chk: common.Check):
    tier = chk.tier
    gen = gen_tables.gen_c12()
    res = common.lean_prove(PROP_MODULES, tier)
    trusted = [
        "Lean 4 kernel; axioms propext, Quot.sound, Classical.choice only (audited per theorem on this run)",
        "hand-written model lean/MwVerif/Model/Title.lean of splitname/_find_namespace/maybe_capitalize, tied to /repo by correspondence",
        "translator harness/gen_tables.py (siteinfo-*.json -> Gen/Sites.lean; Python Unicode data -> Gen/CharTable.lean for the test alphabet)",
        "the CharLaws hypotheses about str.upper()/isspace() are checked over all 0x10F800 code points by the harness on every run (complete enumeration, not a Lean proof)",
        "harness/c12.py (generator, oracles)",
    ]
    chk.proof_coverage(res, trusted)
    rng = chk.rng
    hs = handlers()
    alpha = gen["alphabet"]
    alpha_ws = "".join(c for c in alpha if c.isspace() and c not in " \n") or " "
    letters = [c for c in alpha if not (c.isspace() or c in "_:" + MARKS)]
    drv = Driver("c12")
    hist = Counter()
    diffs, viol, known = [], [], Counter()

    # ---- (b) lower / upperFirst
    strs = ["".join(rng.choice(alpha) for _ in range(rng.randint(0, 8))) for _ in range(20000 if tier == "thorough" else 4000)]
    strs += ["ΑΣ", "ΑΣ.", "Σ", "ΑΣΑ", "Α.Σ", "ΑΣ'Α", "İ", "ǅ", "ß", "ΣΣ"]
    outs = drv.ask(["lower " + enc(s) for s in strs] + ["upper1 " + enc(s) for s in strs])
    for s, o in zip(strs, outs[: len(strs)]):
        if dec(o) != s.lower():
            diffs.append({"stream": "lower", "input": s, "impl": s.lower(), "model": dec(o)})
    for s, o in zip(strs, outs[len(strs):]):
        if dec(o) != s[0:1].upper() + s[1:]:
            diffs.append({"stream": "upperFirst", "input": s, "impl": s[0:1].upper() + s[1:], "model": dec(o)})

    # ---- (c) splitname
    ngroups = 40000 if tier == "thorough" else 2500
    reqs, meta = [], []
    canon_seen = set()
    evaluations = 0
    corpus = []
    cdir = common.CORPUS / "C12"
    if cdir.exists():
        for f in sorted(cdir.glob("*.json")):
            corpus += json.load(open(f))["groups"]
    for lang, h in hs.items():
        ids = [ns["id"] for ns in h.siteinfo["namespaces"].values()]
        todo = [(g["default"], g["titles"]) for g in corpus if g["lang"] == lang]
        for k in range(ngroups // len(hs)):
            if todo:
                d, group = todo.pop()
            else:
                d = rng.choice([0, 0, 0, 10, 6, 14, rng.choice(ids), 999])
                group = gen_group(rng, h, letters, alpha_ws, d)
            results = []
            fresh = type(h)(h.siteinfo)      # a handler without history
            for t in group:
                evaluations += 1
                try:
                    r = h.splitname(t, d)
                except KeyError:
                    r = "keyerror"
                try:
                    rf = fresh.splitname(t, d)
                except KeyError:
                    rf = "keyerror"
                if rf != r:
                    viol.append({"kind": "history-dependent", "lang": lang, "d": d, "title": t, "result": r, "fresh_handler_result": rf})
                results.append(r)
                reqs.append(f"split {lang};{d};{enc(t)}")
                meta.append((lang, d, t, r))
                hist["keyerror" if r == "keyerror" else ("ns=%s" % ("0" if r[0] == 0 else "other"))] += 1
                if r == "keyerror":
                    continue
                # shape
                nsname = h.siteinfo["namespaces"][str(r[0])]["*"]
                exp_full = (nsname + ":" if nsname else "") + r[1]
                if r[2] != exp_full:
                    viol.append({"kind": "shape", "lang": lang, "d": d, "title": t, "result": r, "expected_full": exp_full})
                if h.capitalize and r[1][0:1].upper() + r[1][1:] != r[1]:
                    viol.append({"kind": "not-capitalised", "lang": lang, "d": d, "title": t, "result": r})
                # idempotence
                r2 = h.splitname(r[2], 0)
                r3 = h.splitname(r[2], d) if r[0] != 0 else r
                if r2 != r or r3 != r:
                    cls = classify_nonidempotent(h, t, d, r, r2)
                    v = {"kind": "not-idempotent", "lang": lang, "d": d, "title": t, "first": r, "again": r2, "again_with_default": r3}
                    if cls:
                        known[cls] += 1
                        if known[cls] == 1:
                            chk.violation(f"normalising twice differs ({cls})", v, sig={"kind": "not-idempotent", "class": cls})
                    else:
                        viol.append(v)
                elif (lang, r[2]) not in canon_seen:
                    canon_seen.add((lang, r[2]))
                    reqs.append(f"split {lang};0;{enc(r[2])}")
                    meta.append((lang, 0, r[2], r2))
            # spelling invariance within the group
            okr = [r for r in results if r != "keyerror"]
            if okr and any(r != okr[0] for r in okr):
                # different only if a documented class applies to one of the spellings
                cls = [classify_nonidempotent(h, t, d, r, r) for t, r in zip(group, results) if r != "keyerror"]
                v = {"kind": "spelling-variant", "lang": lang, "d": d, "titles": group, "results": results}
                if any(cls):
                    known["spelling:" + str([c for c in cls if c][0])] += 1
                else:
                    viol.append(v)
    outs = drv.ask(reqs)
    for (lang, d, t, r), o in zip(meta, outs):
        if r == "keyerror":
            m = "keyerror"
        else:
            m = f"{r[0]}|{enc(r[1])}|{enc(r[2])}"
        if o != m:
            diffs.append({"stream": "splitname", "lang": lang, "d": d, "title": t, "impl": r,
                          "model": o if o == "keyerror" else [o.split("|")[0]] + [dec(x) for x in o.split("|")[1:]]})
    laws_bad, laws_ex = char_laws()

    chk.coverage.update({
        "evaluations": evaluations + len(strs) * 2,
        "distinct_nontrivial": len(canon_seen),
        "rule": "title groups = several spellings of one title (namespace local/canonical/alias names of the site in varying case, separators, "
                "underscores/space runs, Unicode whitespace and direction marks at the edges, optional leading colon, Unicode letters incl. case-unstable ones, "
                "inner colons) x default namespaces {0,10,6,14,random,missing} x 12 bundled sites; every canonical output is fed back. "
                "non-trivial = distinct canonical full names produced",
        "traces_validated_against_impl": len(meta),
        "lower_upper_strings_compared": len(strs) * 2,
        "correspondence_differences": len(diffs),
        "oracle_violations": len(viol),
        "known_classes_hit": dict(known),
        "char_law_counterexamples": laws_bad,
        "histogram": dict(hist),
        "sites": gen["sites"],
        "alphabet_size": len(alpha),
        "samples": [{"lang": m[0], "default": m[1], "title": m[2], "result": m[3]} for m in meta[:3] + meta[-2:]],
    })
    chk.assumptions += ["Python str values without lone surrogates",
                        "sites: the 12 bundled siteinfo files (regenerated into Gen/Sites.lean on this run)"]
    for v in viol[:2]:
        chk.violation("C12 violated by NsHandler.splitname: " + v["kind"], {"kind_": "impl-oracle", **v},
                      sig={"kind": v["kind"]})
    if viol:
        return
    broken = []
    if not res.ok:
        broken.append({"kind": "lean", "failed": res.failed_targets, "bad_axioms": res.bad_axioms, "forbidden": res.forbidden_hits, "log_tail": res.log[-1500:]})
    if diffs:
        broken.append({"kind": "correspondence", "count": len(diffs), "first": diffs[0]})
    if laws_bad:
        broken.append({"kind": "char-laws", "counterexamples": laws_ex})
    if broken:
        chk.violation("C12 is no longer shown to hold: " + ", ".join(b["kind"] for b in broken)
                      + " broke; the oracles on NsHandler.splitname found no failing title outside the documented classes",
                      {"broken": broken, "theorems": PROP_MODULES}, no_input=True)
