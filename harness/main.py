"""./check dispatcher."""
import argparse
import importlib
import os
import sys
import traceback

from . import common


def main():
    ap = argparse.ArgumentParser()
    ap.add_argument("prop", nargs="?")
    ap.add_argument("--setup", action="store_true")
    ap.add_argument("--tier", default=os.environ.get("VERIF_TIER", "quick"))
    ap.add_argument("--seed", type=int, default=int(os.environ.get("VERIF_SEED", "0") or 0))
    ap.add_argument("--replay")
    a = ap.parse_args()
    if a.tier not in ("quick", "thorough"):
        a.tier = "quick"
    if a.setup:
        from . import gen_tables

        gen_tables.gen_c12()
        gen_tables.gen_c13()
        ok, log = common.lake_build(["MwVerif", "driver"])
        print(log[-3000:])
        sys.exit(0 if ok else 2)
    if not a.prop:
        ap.error("property id required")
    prop = a.prop.upper()
    try:
        mod = importlib.import_module(f"harness.{prop.lower()}")
    except ModuleNotFoundError as e:
        print(f"no check for {prop}: {e}", file=sys.stderr)
        sys.exit(2)
    chk = common.Check(prop, a.tier, a.seed, mod.LEVEL, replay=a.replay)
    try:
        mod.run(chk)
        chk.write_evidence()
        rc = 1 if chk.violations else 0
    except common.HarnessError as e:
        print(f"HARNESS-ERROR {prop}: {e}", file=sys.stderr)
        rc = 2
    except Exception:
        traceback.print_exc()
        rc = 2
    finally:
        chk.cleanup()
    sys.exit(rc)


if __name__ == "__main__":
    main()
