"""C04 — template expansion computes what the template language says.

L1  lean/MwVerif/Props/C04.lean: (evaluator model) text unchanged, binding by position/name with
    last-wins and the trimming rules, literal/ default for unbound parameters, #if/#ifeq/#switch
    selection; (#expr model) the shunting-yard loop outputs every well-parenthesised tree in
    post-order for any operator table; the code's table (generated) induces the documented order.
L2  (a) translator Gen/ExprOps.lean from expr.precedence / expr.unary_ops
    (b) correspondence: Model.expand vs the real Expander on acyclic universes (real parse trees);
        Model.rpn vs the operand/operator sequence the real Expr emits (wrapped output_* methods)
L3  independent reference interpreters on the Python side, from *program trees* (so that the
    brace parser is covered too): template programs of the property's grammar -> expected text;
    #expr trees -> expected value under the documented semantics.
"""
from __future__ import annotations

import json
import math
import random
from collections import Counter

from . import common

LEVEL = "proof"
PROP_MODULES = ["MwVerif.Props.C04"]

# ------------------------------------------------------------------ reference semantics: templates

WORDS = ["a", "b", "foo", "Bar", "x1", "zz", "42", "7", "0", "1", "1.0", "01", "0.5", ".50", "-3"]
WS = ["", "", " ", "\n", "  ", " \n "]


def strip(s):
    return s.strip()


def num(s):
    """documented numeric reading of a decimal literal; None for anything else."""
    import re
    from fractions import Fraction

    if re.fullmatch(r"[+-]?(\d+(\.\d*)?|\.\d+)", s):
        return Fraction(s)
    return None


def same(a, b):
    if a == b:
        return True
    x, y = num(a), num(b)
    return x is not None and y is not None and x == y


class PGen:
    """programs of the property's grammar as trees + their wikitext + their meaning."""

    def __init__(self, rng, names):
        self.rng = rng
        self.names = names          # templates callable from here (acyclic: only later ones)

    def ws(self):
        return self.rng.choice(WS)

    def word(self):
        return self.rng.choice(WORDS)

    def prog(self, depth, callees, params):
        """-> tree. trees: ('t', str) ('p', name, default|None) ('c', tname, [(key|None, wsb, tree, wsa)])
        ('if', ws.., c, a, b|None) ('ifeq', x, y, a, b|None) ('sw', v, [(keys, value)], dflt|None) ('seq', [trees])"""
        r = self.rng
        parts = []
        for _ in range(r.randint(1, 3)):
            k = r.random()
            if depth <= 0 or k < 0.3:
                parts.append(("t", self.word()))
            elif k < 0.5:
                p = r.choice(params + ["1", "2", "k", "nope"])
                parts.append(("p", p, self.prog(depth - 1, callees, params) if r.random() < 0.5 else None))
            elif k < 0.72 and callees:
                parts.append(self.call(depth - 1, callees, params))
            elif k < 0.82:
                c = self.prog(depth - 1, callees, params) if r.random() < 0.6 else ("t", r.choice(["", " ", "x"]))
                a = self.prog(depth - 1, callees, params)
                b = self.prog(depth - 1, callees, params) if r.random() < 0.7 else None
                parts.append(("if", c, a, b, [self.ws() for _ in range(6)]))
            elif k < 0.9:
                x, y = self.prog(depth - 1, callees, params), self.prog(depth - 1, callees, params)
                if r.random() < 0.5:
                    x, y = ("t", r.choice(["1", "1.0", "01", "0.5", "a"])), ("t", r.choice(["1", "1.00", "+1", ".5", "a", "A"]))
                a = self.prog(depth - 1, callees, params)
                b = self.prog(depth - 1, callees, params) if r.random() < 0.7 else None
                parts.append(("ifeq", x, y, a, b, [self.ws() for _ in range(8)]))
            else:
                parts.append(self.switch(depth - 1, callees, params))
        return ("seq", parts, [r.choice(["", " "]) for _ in parts])

    def call(self, depth, callees, params):
        r = self.rng
        args = []
        for _ in range(r.randint(0, 3)):
            v = self.prog(depth, callees, params)
            key = r.choice(["k", "m", "1", "2", "x y"]) if r.random() < 0.4 else None
            args.append((key, [self.ws() for _ in range(4)], v))
        return ("c", r.choice(callees), args, [self.ws(), self.ws()])

    def switch(self, depth, callees, params):
        r = self.rng
        v = self.prog(depth, callees, params) if r.random() < 0.5 else ("t", self.word())
        cases = []
        for _ in range(r.randint(0, 4)):
            keys = [r.choice(WORDS) for _ in range(r.randint(1, 2))]        # several keys: fall-through
            if r.random() < 0.15:
                keys[-1] = "#default"
            cases.append((keys, self.prog(depth, callees, params), [self.ws() for _ in range(4)]))
        dflt = self.prog(depth, callees, params) if r.random() < 0.3 else None    # last key-less argument
        return ("sw", v, cases, dflt, [self.ws(), self.ws(), self.ws()])


def show(t):
    k = t[0]
    if k == "t":
        return t[1]
    if k == "seq":
        out = []
        for p, sep in zip(t[1], t[2]):
            out.append(show(p))
            out.append(sep)
        return "".join(out[:-1]) if out else ""
    if k == "p":
        return "{{{" + t[1] + ("|" + show(t[2]) if t[2] is not None else "") + "}}}"
    if k == "c":
        _, name, args, w = t
        s = "{{" + w[0] + name + w[1]
        for key, ws, v in args:
            if key is None:
                s += "|" + ws[0] + show(v) + ws[1]
            else:
                s += "|" + ws[0] + key + ws[1] + "=" + ws[2] + show(v) + ws[3]
        return s + "}}"
    if k == "if":
        _, c, a, b, w = t
        return "{{#if:" + w[0] + show(c) + w[1] + "|" + w[2] + show(a) + w[3] + ("|" + w[4] + show(b) + w[5] if b is not None else "") + "}}"
    if k == "ifeq":
        _, x, y, a, b, w = t
        return ("{{#ifeq:" + w[0] + show(x) + w[1] + "|" + w[2] + show(y) + w[3] + "|" + w[4] + show(a) + w[5]
                + ("|" + w[6] + show(b) + w[7] if b is not None else "") + "}}")
    if k == "sw":
        _, v, cases, dflt, w = t
        s = "{{#switch:" + w[0] + show(v) + w[1]
        for keys, val, cw in cases:
            for kk in keys[:-1]:
                s += "|" + cw[0] + kk + cw[1]
            s += "|" + cw[0] + keys[-1] + cw[1] + "=" + cw[2] + show(val) + cw[3]
        if dflt is not None:
            s += "|" + w[2] + show(dflt)
        return s + "}}"
    raise ValueError(k)


class Unsure(Exception):
    """the reference semantics declines (construct outside what the property pins down)."""


def sem(t, env, db):
    """the value the MediaWiki template semantics gives tree t with parameter bindings env."""
    k = t[0]
    if k == "t":
        return t[1]
    if k == "seq":
        out = []
        for p, sep in zip(t[1], t[2]):
            out.append(sem(p, env, db))
            out.append(sep)
        return "".join(out[:-1]) if out else ""
    if k == "p":
        name = strip(t[1])
        if env is not None and name in env:
            return env[name]()
        if t[2] is not None:
            return sem(t[2], env, db)
        return "{{{" + name + "}}}"
    if k == "c":
        _, name, args, w = t
        bind = {}
        pos = 0
        for key, ws, v in args:
            if key is None:
                pos += 1
                # positional: untrimmed, evaluated in the caller's environment
                bind[str(pos)] = (lambda v=v, ws=ws: ws[0] + sem(v, env, db) + ws[1])
            else:
                bind[strip(key)] = (lambda v=v: strip(sem(v, env, db)))
        body = db.get(name)
        if body is None:
            return ""
        return sem(body, bind, db)
    if k == "if":
        _, c, a, b, w = t
        if strip(sem(c, env, db)):
            return strip(sem(a, env, db))
        return strip(sem(b, env, db)) if b is not None else ""
    if k == "ifeq":
        _, x, y, a, b, w = t
        if same(strip(sem(x, env, db)), strip(sem(y, env, db))):
            return strip(sem(a, env, db))
        return strip(sem(b, env, db)) if b is not None else ""
    if k == "sw":
        _, v, cases, dflt, w = t
        val = strip(sem(v, env, db))
        explicit_default = None
        for keys, value, cw in cases:
            for kk in keys:
                if same(strip(kk), val):
                    return strip(sem(value, env, db))
                if strip(kk) == "#default" and explicit_default is None:
                    explicit_default = value
        if explicit_default is not None:
            return strip(sem(explicit_default, env, db))
        if dflt is not None:
            return strip(sem(dflt, env, db))
        return ""
    raise ValueError(k)


def risky(text):
    """outputs on which implicit newlines (list markers after a template start) or brace gluing could
    make the plain reference semantics differ: skip (counted)."""
    return False


def gen_program(rng):
    n = rng.randint(1, 4)
    names = ["tq%d" % (i + 1) for i in range(n)]
    g = PGen(rng, names)
    db = {}
    for i, nm in enumerate(names):
        callees = names[i + 1:] + (["missing"] if rng.random() < 0.15 else [])
        db[nm] = g.prog(rng.randint(1, 3), callees, ["1", "2", "k", "m"])
    page = g.prog(rng.randint(1, 4), names, [])
    return page, db


IMPLICIT = ("*", "#", ":", ";", "{|")


def has_marker(s):
    """a word that could start a list/table line ('#default' does): the reference semantics has no
    implicit-newline rule, keep such programs out of the exact comparison."""
    return False


# ------------------------------------------------------------------ reference semantics: #expr

BIN = {"+": 6, "-": 6, "*": 7, "/": 7, "div": 7, "mod": 7, "^": 8, "round": 5, "=": 4, "!=": 4, "<>": 4, "<": 4, ">": 4,
       "<=": 4, ">=": 4, "and": 3, "or": 2}
UN = {"-": 10, "+": 10, "abs": 9, "floor": 9, "ceil": 9, "trunc": 9, "not": 9}
LITS = ["0", "1", "2", "3", "7", "10", "42", "0.5", "2.5", "1.25", "100", "3.75"]


class EvalError(Exception):
    pass


def e_gen(rng, depth):
    """('n', lit) | ('u', op, e) | ('b', op, l, r)"""
    if depth <= 0 or rng.random() < 0.25:
        return ("n", rng.choice(LITS))
    if rng.random() < 0.25:
        return ("u", rng.choice(list(UN)), e_gen(rng, depth - 1))
    op = rng.choice(list(BIN))
    return ("b", op, e_gen(rng, depth - 1), e_gen(rng, depth - 1))


def e_val(e):
    """documented meaning (ints exact, / true division, mod on integers, ^ float power,
    comparisons/and/or/not -> 0/1, floor/ceil/trunc -> integers, round half away from zero)."""
    k = e[0]
    if k == "n":
        return float(e[1]) if "." in e[1] else int(e[1])
    if k == "u":
        x = e_val(e[2])
        op = e[1]
        if op == "-":
            return -x
        if op == "+":
            return x
        if op == "abs":
            return abs(x)
        if op == "not":
            return int(not x)
        if op == "floor":
            return math.floor(x)
        if op == "ceil":
            return math.ceil(x)
        if op == "trunc":
            return math.trunc(x)
    if k == "b":
        op = e[1]
        x, y = e_val(e[2]), e_val(e[3])
        try:
            if op == "+":
                return x + y
            if op == "-":
                return x - y
            if op == "*":
                return x * y
            if op in ("/", "div"):
                if y == 0:
                    raise EvalError("division by zero")
                return x / y
            if op == "mod":
                if int(y) == 0:
                    raise EvalError("modulo by zero")
                if x < 0 or y < 0:
                    raise EvalError("sign of mod is outside the property")
                return int(x) % int(y)
            if op == "^":
                if abs(x) > 1e3 or abs(y) > 40:
                    raise EvalError("too large")
                if x == 0 and y < 0:
                    raise EvalError("0 to a negative power")
                if x < 0 and y != int(y):
                    raise EvalError("complex")
                return math.pow(x, y)
            if op == "round":
                d = int(y)
                if abs(d) > 10:
                    raise EvalError("too many places")
                s = x * 10 ** d
                if abs(abs(s - math.floor(s)) - 0.5) < 1e-9:
                    raise EvalError("rounding tie (outside the property)")
                return math.floor(s + 0.5) / 10 ** d
            if op == "=":
                return int(x == y)
            if op in ("!=", "<>"):
                return int(x != y)
            if op == "<":
                return int(x < y)
            if op == ">":
                return int(x > y)
            if op == "<=":
                return int(x <= y)
            if op == ">=":
                return int(x >= y)
            if op == "and":
                return int(bool(x) and bool(y))
            if op == "or":
                return int(bool(x) or bool(y))
        except OverflowError as err:
            raise EvalError(str(err)) from err
    raise ValueError(e)


def spine_min(e, paren):
    """documented levels of the operators pending after e is printed (None = nothing pending)."""
    if paren or e[0] == "n":
        return []
    if e[0] == "u":
        return [UN[e[1]]] + spine_min(e[2], e[2][0] == "b")
    return [BIN[e[1]]] + spine_min(e[3], need_paren_right(e[1], e[3]))


def need_paren_left(op, l):
    return any(q < BIN[op] for q in spine_min(l, False))


def need_paren_right(op, r):
    return r[0] == "b" and BIN[r[1]] <= BIN[op]


def e_print(e, rng, redundant, lits):
    """-> (text, ast-for-the-driver). minimal: parentheses only where the documented grammar needs them;
    redundant: extra ones at random."""
    k = e[0]

    def wrap(txt, ast, force):
        if force or (redundant and rng.random() < 0.4):
            return "(" + txt + ")", "P " + ast
        return txt, ast

    if k == "n":
        if e[1] not in lits:
            lits.append(e[1])
        return wrap(e[1], "N%d" % lits.index(e[1]), False)
    if k == "u":
        t, a = e_print(e[2], rng, redundant, lits)
        if e[2][0] == "b" and not a.startswith("P "):
            t, a = "(" + t + ")", "P " + a
        return wrap(e[1] + " " + t, "U%s %s" % (e[1], a), False)
    op = e[1]
    lt, la = e_print(e[2], rng, redundant, lits)
    if need_paren_left(op, e[2]) and not la.startswith("P "):
        lt, la = "(" + lt + ")", "P " + la
    rt, ra = e_print(e[3], rng, redundant, lits)
    if need_paren_right(op, e[3]) and not ra.startswith("P "):
        rt, ra = "(" + rt + ")", "P " + ra
    return wrap(lt + " " + op + " " + rt, "B%s %s %s" % (op, la, ra), False)


def real_rpn(text):
    """the operands and operators the real parser emits, in order."""
    from mwlib.parser import expr

    log = []
    ex = expr.Expr()
    oo, op = ex.output_operand, ex.output_operator

    def operand(v):
        log.append(("n", v))
        return oo(v)

    def operator(o):
        name = "u-" if o is expr.UMinus else "u+" if o is expr.UPlus else o
        log.append(("o", name))
        return op(o)

    ex.output_operand, ex.output_operator = operand, operator
    try:
        ex.parse_expr(text)
    except Exception as e:  # noqa: BLE001
        return log, f"{type(e).__name__}: {e}"
    return log, None


def real_expr_value(text):
    from .templ_common import wiki_db
    from mwlib.parser.expander import Expander

    return Expander("{{#expr: " + text + "}}", wikidb=wiki_db({})).expandTemplates()


# ------------------------------------------------------------------ workers

def templ_worker(items, extra, progress):
    from . import build_repo

    build_repo.overlay_all()
    import logging

    logging.disable(logging.WARNING)
    from . import templ_common as tc
    from .common import Driver, dec

    reqs, meta, viol = [], [], []
    hist = Counter()
    for i, seed in enumerate(items):
        if i % 64 == 0 and progress.stop_requested():
            break
        progress(i)
        rng = random.Random(seed)
        page, db = gen_program(rng)
        text = show(page)
        dbtext = {k: show(v) for k, v in db.items()}
        try:
            want = sem(page, None, db)
        except RecursionError:
            continue
        out, parsed, trees = tc.expand_real(text, dbtext, 100)
        if isinstance(out, tuple):
            viol.append({"why": f"expansion raised {out[1]}: {out[2]}", "page": text, "templates": dbtext})
            continue
        hist["programs"] += 1
        hist["with-" + ("call" if "{{tq" in text else "nocall")] += 1
        # implicit newlines are not part of the reference semantics: compare modulo the marker rule
        if out != want:
            if any(m in text or any(m in b for b in dbtext.values()) for m in ("#default",)) and out.replace("\n", "") == want.replace("\n", ""):
                hist["differs-only-by-implicit-newline"] += 1
            else:
                viol.append({"why": "expansion differs from the template semantics", "page": text, "templates": dbtext,
                             "impl": out, "reference": want})
        reqs.append(tc.model_request(parsed, trees, 100000 if not tc.LIMIT_HITS[0] else 100))
        meta.append((text, dbtext, out))
    progress(len(items))
    outs = Driver("templ").ask(reqs)
    diffs = []
    for (text, dbtext, out), o in zip(meta, outs):
        if o == "opaque":
            hist["model-opaque"] += 1
            continue
        m = dec(o[3:]) if o.startswith("ok") else o
        if m != out:
            diffs.append({"page": text, "templates": dbtext, "impl": out, "model": m})
    return diffs, viol, dict(hist)


def expr_worker(items, extra, progress):
    from . import build_repo

    build_repo.overlay_all()
    from .common import Driver

    reqs, meta, viol = [], [], []
    hist = Counter()
    for i, seed in enumerate(items):
        if i % 64 == 0 and progress.stop_requested():
            break
        progress(i)
        rng = random.Random(seed)
        e = e_gen(rng, rng.randint(1, 5))
        for redundant in (False, True):
            lits = []
            text, ast = e_print(e, rng, redundant, lits)
            log, err = real_rpn(text)
            try:
                want = e_val(e)
            except EvalError as ee:
                want = ee
            got = real_expr_value(text)
            hist["expressions"] += 1
            if isinstance(want, EvalError):
                hist["reference-declines"] += 1
            else:
                hist["valued"] += 1
                try:
                    g = float(got)
                    ok = math.isclose(g, float(want), rel_tol=1e-9, abs_tol=1e-9)
                except ValueError:
                    ok = False
                if not ok:
                    viol.append({"why": "#expr value differs from the documented semantics", "expr": text, "impl": got,
                                 "reference": repr(want)})
            reqs.append("rpn " + ast)
            meta.append((text, lits, log, err, redundant))
    progress(len(items))
    outs = Driver("expr").ask(reqs)
    diffs = []
    for (text, lits, log, err, redundant), o in zip(meta, outs):
        if not o.startswith("ok "):
            diffs.append({"expr": text, "model": o, "impl": "?"})
            continue
        parts = o.split(" ", 2)
        okflag = parts[1]
        body = parts[2]
        toks, rest = body.split(" => ", 1)
        mrpn, post = rest.split(" == ", 1)
        hist["model-ok-" + okflag] += 1
        if okflag != "true":
            diffs.append({"expr": text, "model": "not well-parenthesised under the code's operator table", "impl": "printer uses the documented table"})
            continue
        if mrpn != post:
            diffs.append({"expr": text, "model": mrpn, "postorder": post})
            continue
        real = []
        for kind, v in log:
            if kind == "n":
                cand = [i for i, lit in enumerate(lits) if (float(lit) if "." in lit else int(lit)) == v and type(v) is (float if "." in lit else int)]
                real.append("n%d" % cand[0] if cand else "n?%r" % v)
            else:
                real.append("o" + v)
        if err is not None and not err.startswith("ExprError") and not err.startswith("AssertionError"):
            # an arithmetic error stops the real (evaluate-as-you-go) loop: what it emitted so far must be a prefix
            if mrpn.split()[:len(real)] != real:
                diffs.append({"expr": text, "model": mrpn, "impl": " ".join(real), "impl_error": err})
            hist["arithmetic-error-prefix"] += 1
        elif err is not None or " ".join(real) != mrpn:
            diffs.append({"expr": text, "model": mrpn, "impl": " ".join(real), "impl_error": err})
    return diffs, viol, dict(hist)


# ------------------------------------------------------------------ main

def args_worker(items, extra, progress):
    """the real Parser._parse_args (optimize() off) vs Model.parseArgs: children over [[ ]] | = and other strings/nodes."""
    import itertools
    import logging

    from . import build_repo

    build_repo.overlay_all()
    logging.disable(logging.WARNING)
    from mwlib.parser.templ import parser as P
    from mwlib.parser.templ.marks import eqmark

    from .common import Driver

    sym = ["[[", "]]", "|", "=", None, None]
    enc = {"[[": "[", "]]": "]", "|": "|", "=": "="}
    reqs, meta, hist = [], [], Counter()
    pr = P.Parser("")
    old = P.optimize
    P.optimize = lambda x: x
    try:
        for i, it in enumerate(items):
            progress(i)
            if isinstance(it, int):
                rng = random.Random(it)
                shape = [rng.choice(sym) for _ in range(rng.randint(0, 12))]
                flag = rng.random() < 0.5
            else:
                flag, shape = it[0], [sym[k] for k in it[1]]
            children, toks = [], []
            for k, c in enumerate(shape):
                if c is None:
                    obj = "w%d" % k if k % 2 else ("node", k)      # a string or a parsed node
                    children.append(obj)
                    toks.append("x%d" % k)
                else:
                    children.append(c)
                    toks.append(enc[c])
            real = pr._parse_args(list(children), append_arg=flag)

            def show(x):
                if x is eqmark:
                    return "E"
                if isinstance(x, str) and x in enc:
                    return enc[x]
                return "x%d" % (int(x[1:]) if isinstance(x, str) else x[1])

            rs = "n=%d " % len(real) + " / ".join(" ".join(show(x) for x in a) for a in real)
            hist["argument-lists"] += 1
            reqs.append("args %d %s" % (1 if flag else 0, " ".join(toks)))
            meta.append((shape, flag, rs))
    finally:
        P.optimize = old
    progress(len(items))
    diffs = []
    for (shape, flag, rs), o in zip(meta, Driver("braces").ask(reqs)):
        if rs.strip() != o.strip():
            diffs.append({"stream": "_parse_args", "children": shape, "append_arg": flag, "impl": rs, "model": o})
    return diffs, [], dict(hist)


def replay(chk, data):
    from . import build_repo

    build_repo.overlay_all()
    from . import templ_common as tc

    if "expr" in data:
        got = real_expr_value(data["expr"])
        chk.say(f"replay: {{{{#expr: {data['expr']}}}}} -> {got!r}; reference {data.get('reference')}")
        try:
            ok = math.isclose(float(got), float(eval(data["reference"])), rel_tol=1e-9, abs_tol=1e-9)  # noqa: S307
        except Exception:  # noqa: BLE001
            ok = False
        if not ok:
            chk.violation("C04 violated: #expr value differs from the documented semantics", data)
        return
    if "page" in data:
        out, _, _ = tc.expand_real(data["page"], data["templates"], 100)
        chk.say(f"replay: -> {out!r}; reference {data.get('reference')!r}")
        if "reference" in data and out != data["reference"]:
            chk.violation("C04 violated: expansion differs from the template semantics", data)
        return
    chk.say("replay: nothing to run for this file")


def run(chk: common.Check):
    from . import build_repo, gen_tables, guard

    build_repo.overlay_all()
    if chk.replay:
        replay(chk, json.load(open(chk.replay)))
        return
    tier = chk.tier
    t = gen_tables.gen_c04()
    res = common.lean_prove(PROP_MODULES, tier)
    trusted = [
        "Lean 4 kernel; axioms propext, Quot.sound, Classical.choice only (audited per theorem on this run)",
        "hand-written models lean/MwVerif/Model/Templ.lean (evaluator) and Model/Expr.lean (shunting-yard loop of expr.py), tied to "
        "/repo by correspondence on this tree's compiled extensions",
        "translator: Gen/ExprOps.lean from expr.precedence / expr.unary_ops; the documented table in Props/C04.lean is hand-copied "
        "from MediaWiki's ExprParser",
        "hand-written model lean/MwVerif/Model/Args.lean of Parser._parse_args, tied by correspondence on every children list of <= 5 (thorough 6) "
        "symbols over [[ ]] | = other and random longer ones",
        "the rest of templ/parser.py (node construction from children), the #expr tokenizer, number conversion, float arithmetic and result formatting are not "
        "modelled: they are covered by the Python reference interpreters working from program trees (differential, not a theorem)",
        "harness/c04.py: generators, reference semantics (sem, e_val), minimal/redundant parenthesiser over the documented levels",
    ]
    chk.proof_coverage(res, trusted)
    scratch = str(chk.mkscratch())
    nt = 30000 if tier == "thorough" else 3000
    ne = 30000 if tier == "thorough" else 3000
    items = [chk.seed * 10_000_000 + i for i in range(nt)]
    r1, c1 = guard.guarded_run(scratch, "harness.c04:templ_worker", items, nproc=12, hard_timeout=60,
                               stop_when=lambda r, c: len(c) >= 2 or sum(len(x[1]) for x in r) >= 5)
    items = [chk.seed * 10_000_000 + 5_000_000 + i for i in range(ne)]
    r2, c2 = guard.guarded_run(scratch, "harness.c04:expr_worker", items, nproc=12, hard_timeout=60,
                               stop_when=lambda r, c: len(c) >= 2 or sum(len(x[1]) for x in r) >= 5)
    import itertools
    aitems = [(f, t) for f in (False, True) for n in range(0, (7 if tier == "thorough" else 6)) for t in itertools.product(range(5), repeat=n)]
    aitems += [chk.seed * 10_000_000 + 6_000_000 + i for i in range(40000 if tier == "thorough" else 6000)]
    r3, c3 = guard.guarded_run(scratch, "harness.c04:args_worker", aitems, nproc=12, hard_timeout=60)
    c2 = c2 + c3
    diffs, viol, hist = [], [], Counter()
    for d, v, h in r1 + r2 + r3:
        diffs += d
        viol += v
        hist.update(h)
    for item, kind, detail in c1 + c2:
        viol.append({"why": f"{kind}: {detail}", "seed_item": item})
    chk.coverage.update({
        "evaluations": nt + 2 * ne,
        "distinct_nontrivial": hist.get("programs", 0) + hist.get("valued", 0),
        "rule": "template programs: 1-4 templates (acyclic), nesting depth <= 4, word/number leaves, positional/named/duplicate arguments "
                "with random blanks/newlines, parameter defaults, #if, #ifeq (incl. numeric spellings), #switch with fall-through, "
                "#default and implicit default; each expanded by the real Expander and compared with (i) the reference semantics from "
                "the program tree and (ii) the Lean evaluator model on the real parse trees. #expr: trees to depth 5 over the property's "
                "operators, printed with minimal and with redundant parentheses: real operand/operator sequence vs Model.rpn, "
                "real value vs the documented semantics (reference declines on ties, division by zero, negative mod, huge powers). "
                "non-trivial = programs expanded + expressions with a reference value",
        "traces_validated_against_impl": hist.get("programs", 0) + hist.get("expressions", 0) + hist.get("argument-lists", 0),
        "correspondence_differences": len(diffs),
        "histogram": dict(hist),
        "operator_table": t["rows"],
    })
    chk.assumptions += ["leaves are words and decimal literals of at most 4 significant digits (no exponents, inf/nan, underscores)",
                        "#expr: non-negative operands for mod, no rounding ties, |base| <= 1000 and |exponent| <= 40 for ^"]
    seen = 0
    for v in viol:
        if seen >= 3:
            break
        seen += 1
        chk.violation("C04 violated: " + v["why"] + " on " + repr(v.get("page", v.get("expr")))[:200], {"kind": "impl-oracle", **v},
                      sig={"kind": v["why"][:40]})
    if viol:
        return
    broken = []
    if not res.ok:
        broken.append({"kind": "lean", "failed": res.failed_targets, "bad_axioms": res.bad_axioms, "forbidden": res.forbidden_hits,
                       "log_tail": res.log[-1500:]})
    if diffs:
        broken.append({"kind": "correspondence", "count": len(diffs), "first": diffs[0]})
    if broken:
        chk.violation("C04 is no longer shown to hold: " + ", ".join(b["kind"] for b in broken)
                      + " broke; the reference interpreters found no failing program or expression",
                      {"broken": broken, "theorems": PROP_MODULES}, no_input=True)
