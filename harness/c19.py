"""C19 — render status reported to the wiki is faithful to the job's real state.

L1  lean/MwVerif/Props/C19.lean over Model/Status.lean (+ the queue model)
L2  correspondence: Application.do_render_status bound in-process to the real QPlugin/workq
    (through a JSON round trip, as the RPC does) vs Model.renderStatus on the model's queue
    state, after every operation of generated histories of the two jobs x 3 writers;
    get_content_disposition vs Model.contentDisposition over (almost) all code points
L3  oracle on the implementation alone: status vs the real job objects; header safety
"""
from __future__ import annotations

import json
import os
import random
import re
import unicodedata
import urllib.parse
from collections import Counter

from . import common, qs_common
from .common import Driver, enc, dec

LEVEL = "proof"
PROP_MODULES = ["MwVerif.Props.C19"]
CID = "0123456789abcdef"
WRITERS = ["rl", "odf", "xhtml"]
FN = {1: "My Böök: a \"test\", vol. 2", 2: "  ", 3: "плохо;name"}


def res_enc(n):
    if n == 0:
        return {}
    if n == 1:
        return {"url": "u1", "size": 10}
    if n == 2:
        return {"url": "u2", "size": 20, "suggested_filename": FN[1]}
    if n == 3:
        return {"url": "u3"}
    return {"url": f"u{n}", "size": n, "suggested_filename": FN[(n - 4) % 3 + 1]}


def res_dec(obj):
    if obj == {}:
        return 0
    u = int(obj["url"][1:])
    return u


class Proxy:
    """stands for rpcclient.ServerProxy: same method, same JSON round trip, in process."""

    def __init__(self, sim):
        self.sim = sim

    def qinfo(self, jobid):
        r = self.sim.Handler().rpc_qinfo(jobid)
        return json.loads(json.dumps(r))


def canon_status(d):
    st = d.get("state")
    if st == "failed":
        from .qsim import fmt_err

        return "failed:" + fmt_err(d["error"])
    if st == "finished":
        url = d.get("url")
        sfn = d.get("suggested_filename")
        idx = "-"
        if sfn:
            idx = str([k for k, v in FN.items() if v == sfn][0])
        return "finished:url={},size={},sfn={},empty={}".format(
            "-" if url is None else url[1:], "-" if d.get("content_length") is None else d["content_length"],
            idx, 1 if sfn == "" else 0)
    if st == "progress":
        info = d.get("status")
        if info == {"status": "data fetched. waiting for render process.."}:
            return "progress:datafetched"
        return "progress:dict:" + ",".join(f"{int(k)}:{v}" for k, v in info.items())
    return "other:" + json.dumps(d, sort_keys=True)


def status_oracle(sim, w, d):
    """the property, on the real job objects."""
    wq = sim.workq
    j = wq.id2job.get(f"{CID}:render-{w}")
    st = d.get("state")
    if st == "finished":
        if j is None or not j.done or j.error:
            return f"'finished' reported for writer {w} but its render job is {'absent' if j is None else ('done=%s error=%r' % (j.done, j.error))}"
        cd = d.get("content_disposition", "")
        if "\n" in cd or "\r" in cd:
            return "content disposition contains CR/LF"
    elif st == "failed":
        if j is None or not j.error or not j.done or d.get("error") != j.error:
            return f"'failed' reported for writer {w} but its render job is {'absent' if j is None else ('done=%s error=%r' % (j.done, j.error))}"
    elif st == "progress":
        if j is not None and j.done:
            return f"'progress' reported for writer {w} although its render job is finished (error={j.error!r})"
        z = wq.id2job.get(f"{CID}:makezip")
        info = d.get("status")
        if j is not None and j.info:
            exp = json.loads(json.dumps(j.info))
        elif z is None:
            exp = {}
        elif z.done:
            exp = {"status": "data fetched. waiting for render process.."}
        else:
            exp = json.loads(json.dumps(z.info))
        if info != exp:
            return f"progress text {info!r}, expected {exp!r}"
    else:
        return f"unexpected reply {d!r}"
    return None


def _shard(args):
    seed, n = args
    from . import qsim
    from mwlib.core import nserve

    qsim.IDMAP = {"n1": f"{CID}:makezip", "n2": f"{CID}:render-rl", "n3": f"{CID}:render-odf", "n4": f"{CID}:render-xhtml"}
    qsim.IDINV = {v: k for k, v in qsim.IDMAP.items()}
    qsim.RESENC, qsim.RESDEC = res_enc, res_dec
    rng = random.Random(seed)
    drv = Driver("qs")
    req, impl, meta = [], [], []
    viol = []
    hist = Counter()
    for _ in range(n):
        sim = qsim.Sim()
        app = nserve.Application()
        app.qserve = Proxy(sim)
        g = qs_common.Gen(rng, "c19", nchan=2, max_jobs=5)
        g.names = ["n1", "n2", "n2", "n3", "n4"]
        lines = []
        ended = {}
        req.append("reset")
        impl.append(None)
        meta.append(None)
        try:
            for _k in range(rng.randint(6, 40)):
                line = g.next(sim)
                t = line.split()
                if t[0] == "add" and t[3] != "-":
                    # the render server's own adds: channel by job kind
                    t[1] = "0" if t[3] == "n1" else "1"
                    line = " ".join(t)
                if t[0] == "finish" and t[3] != "-":
                    t[3] = str(rng.choice([0, 1, 2, 3, 5, 6]))
                    line = " ".join(t)
                rep = sim.op(line)
                for jb in sim.workq.id2job.values():      # how each job ended, recorded when it ended (by serial: a re-added id is a new job)
                    if jb.done and jb.serial not in ended:
                        ended[jb.serial] = (jb.error, len(lines) + 1)
                lines.append(line)
                req.append(line)
                impl.append(rep)
                meta.append(list(lines))
                for wi, w in enumerate(WRITERS):
                    d = app.do_render_status(CID, {"writer": w}, False)
                    c = canon_status(d)
                    hist[c.split(":")[0]] += 1
                    req.append(f"status n{2 + wi} n1")
                    impl.append(c)
                    meta.append(list(lines) + [f"status {w}"])
                    why = status_oracle(sim, w, d)
                    jb = sim.workq.id2job.get(f"{CID}:render-{w}")
                    if not why and jb is not None and jb.serial in ended:
                        err, step = ended[jb.serial]
                        st = d.get("state")
                        if err and st != "failed":
                            why = f"the render job of writer {w} ended with error {err!r} at step {step}, the status now says {st!r}"
                        elif not err and st != "finished":
                            why = f"the render job of writer {w} ended without error at step {step}, the status now says {st!r}"
                    if why and len(viol) < 5:
                        viol.append({"history": list(lines), "writer": w, "why": why, "reply": d})
        finally:
            sim.close()
    out = drv.ask(req)
    diffs = []
    for r, a, b, m in zip(req, impl, out, meta):
        if a is None:
            continue
        bb = b.rpartition(" | inv=")[0] if " | inv=" in b else b
        if a.strip() != bb.strip():
            diffs.append({"history": m, "impl": a, "model": bb})
            if len(diffs) > 3:
                break
    return {"n": n, "queries": sum(1 for a in impl if a is not None), "hist": dict(hist), "viol": viol, "diffs": diffs}


def header_stream(tier, rng):
    """get_content_disposition vs the model, one suggested name per code point."""
    from mwlib.core import nserve

    drv = Driver("c19")
    step = 1 if tier == "thorough" else 5
    cps = [cp for cp in range(0x20, 0x110000, 1) if not (0xD800 <= cp <= 0xDFFF)]
    cps = [cp for cp in cps if cp < 0x3000 or cp % step == 0]
    names, reqs = [], []
    bad_fold, bad_quote, oracle = [], [], []
    safe_q = set("ABCDEFGHIJKLMNOPQRSTUVWXYZabcdefghijklmnopqrstuvwxyz0123456789_.-~/%")
    for cp in cps:
        c = chr(cp)
        if unicodedata.category(c) == "Cc":
            continue
        for name in (c, "a" + c + " b"):
            n2 = name.strip() or "collection"
            folded = unicodedata.normalize("NFKD", n2).encode("ASCII", "ignore").decode()
            quoted = urllib.parse.quote(n2)
            if any(not (0x20 <= ord(x) <= 0x7E) for x in folded):
                bad_fold.append(name)
            if any(x not in safe_q for x in quoted):
                bad_quote.append(name)
            names.append(name)
            reqs.append("cd " + ";".join(enc(x) for x in (n2, folded, quoted, "pdf")))
    extra = ["", "  ", ";;;", "a;b:c\"d'e,f g", "collection", "x" * 300, "ä ö ü", "日本語", "a b", " x "] + list(FN.values())
    for name in extra:
        n2 = (name.strip() if name else name) or "collection"
        folded = unicodedata.normalize("NFKD", n2).encode("ASCII", "ignore").decode()
        names.append(name)
        reqs.append("cd " + ";".join(enc(x) for x in (n2, folded, urllib.parse.quote(n2), "pdf")))
    outs = drv.ask(reqs)
    diffs = []
    seps = set(" ;:\"',")
    for name, o in zip(names, outs):
        real = nserve.get_content_disposition(name, "pdf")
        if dec(o) != real:
            diffs.append({"name": name, "impl": real, "model": dec(o)})
        ok = real.startswith("inline; filename=") and "\n" not in real and "\r" not in real
        if ok:
            rest = real[len("inline; filename="):]
            first, _, star = rest.partition(";filename*=UTF-8''")
            ok = first.endswith(".pdf") and len(first) > 4 and all(0x21 <= ord(x) <= 0x7E and x not in seps for x in first[:-4])
            if ok and star:
                ok = star.endswith(".pdf") and all(x in safe_q for x in star)
        if not ok:
            oracle.append({"name": name, "header": real})
    return {"names": len(names), "diffs": diffs, "oracle": oracle, "bad_fold": bad_fold, "bad_quote": bad_quote}


def replay(chk, data):
    """a recorded history (the operation lines of a status violation) against the real queue and the real status command."""
    from mwlib.core import nserve

    from . import qsim

    lines = [ln for ln in data.get("history", []) if not ln.startswith("status ")]
    if not lines:
        print("replay: the file holds no history (a broken proof or correspondence); rerun the check: " + str(data.get("rerun", "")))
        return
    qsim.IDMAP = {"n1": f"{CID}:makezip", "n2": f"{CID}:render-rl", "n3": f"{CID}:render-odf", "n4": f"{CID}:render-xhtml"}
    qsim.IDINV = {v: k for k, v in qsim.IDMAP.items()}
    qsim.RESENC, qsim.RESDEC = res_enc, res_dec
    sim = qsim.Sim()
    app = nserve.Application()
    app.qserve = Proxy(sim)
    ended = {}
    try:
        for n, line in enumerate(lines):
            sim.op(line)
            for jb in sim.workq.id2job.values():
                if jb.done and jb.serial not in ended:
                    ended[jb.serial] = (jb.error, n + 1)
            for w in WRITERS:
                d = app.do_render_status(CID, {"writer": w}, False)
                why = status_oracle(sim, w, d)
                jb = sim.workq.id2job.get(f"{CID}:render-{w}")
                if not why and jb is not None and jb.serial in ended:
                    err, step = ended[jb.serial]
                    st = d.get("state")
                    if err and st != "failed":
                        why = f"the render job of writer {w} ended with error {err!r} at step {step}, the status now says {st!r}"
                    elif not err and st != "finished":
                        why = f"the render job of writer {w} ended without error at step {step}, the status now says {st!r}"
                if why:
                    chk.violation("status command unfaithful: " + why, {"kind": "impl-oracle", "history": lines[:n + 1], "writer": w, "why": why, "reply": d},
                                  sig={"kind": "status", "why": why[:30]})
                    return
    finally:
        sim.close()
    print("replay: the status command is faithful along this history")


def run(chk: common.Check):
    if chk.replay:
        replay(chk, json.load(open(chk.replay)))
        return
    tier = chk.tier
    res = common.lean_prove(PROP_MODULES, tier)
    trusted = qs_common.QS_TRUSTED + [
        "hand-written model lean/MwVerif/Model/Status.lean of do_render_status/_process_and_return_finished_state/get_content_disposition",
        "hypotheses of c19_header_no_crlf (NFKD/ASCII image and urllib.parse.quote yield printable/safe ASCII for names without control characters) are checked per code point by the harness, not proved",
        "the RPC layer is replaced by an in-process proxy with the same JSON round trip",
    ]
    chk.proof_coverage(res, trusted)
    nproc = min(16, os.cpu_count() or 4)
    nh = 12000 if tier == "thorough" else 1600
    import multiprocessing as mp

    jobs = [(chk.seed * 100003 + i, nh // (nproc * 2)) for i in range(nproc * 2)]
    with mp.get_context("spawn").Pool(nproc) as pool:
        results = pool.map(_shard, jobs)
    hs = header_stream(tier, chk.rng)
    hist = Counter()
    viol, diffs = [], []
    nq = 0
    for r in results:
        hist.update(r["hist"])
        viol += r["viol"]
        diffs += r["diffs"]
        nq += r["queries"]
    chk.coverage.update({
        "evaluations": nq + hs["names"],
        "distinct_nontrivial": sum(hist.values()),
        "rule": "status queried for 3 writers after every op of seeded random histories of the collection's two jobs "
                "(absent, queued, pulled, info updates, finished with the 6 result shapes, errors incl. '', killed, timed out, dropped by the watchdog, restarts); "
                "non-trivial = status queries (all compared); header stream: one and three-character names for "
                + ("every" if tier == "thorough" else "every code point < U+3000 and every 5th above") + " non-control code point",
        "traces_validated_against_impl": sum(r["n"] for r in results),
        "status_queries_compared": nq,
        "status_kinds": dict(hist),
        "header_names_compared": hs["names"],
        "correspondence_differences": len(diffs) + len(hs["diffs"]),
        "oracle_violations": len(viol) + len(hs["oracle"]),
        "fold_hypothesis_counterexamples": len(hs["bad_fold"]),
        "quote_hypothesis_counterexamples": len(hs["bad_quote"]),
        "samples": [d for d in (diffs[:1] + hs["diffs"][:1])] or [{"status_kinds": dict(hist)}],
    })
    chk.assumptions += ["suggested filenames contain no control characters (the property's quantifier)",
                        "collection ids match ^[a-f0-9]{16}$ (checked by the server before the status command runs)"]
    if viol:
        v = viol[0]
        chk.violation("status command unfaithful: " + v["why"], {"kind": "impl-oracle", **v}, sig={"kind": "status", "why": v["why"][:30]})
        return
    if hs["oracle"]:
        chk.violation("download filename not header-safe", {"kind": "impl-oracle", **hs["oracle"][0]}, sig={"kind": "header"})
        return
    broken = []
    if not res.ok:
        broken.append({"kind": "lean", "failed": res.failed_targets, "bad_axioms": res.bad_axioms, "forbidden": res.forbidden_hits, "log_tail": res.log[-1500:]})
    if diffs:
        broken.append({"kind": "correspondence:status", "first": diffs[0], "count": len(diffs)})
    if hs["diffs"]:
        broken.append({"kind": "correspondence:content-disposition", "first": hs["diffs"][0], "count": len(hs["diffs"])})
    if hs["bad_fold"] or hs["bad_quote"]:
        broken.append({"kind": "hypothesis", "fold": hs["bad_fold"][:3], "quote": hs["bad_quote"][:3]})
    if broken:
        chk.violation("C19 is no longer shown to hold: " + ", ".join(b["kind"] for b in broken)
                      + " broke; the implementation oracle (status vs real job objects; header pattern) found nothing",
                      {"broken": broken, "theorems": PROP_MODULES}, no_input=True)
