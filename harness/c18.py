"""C18 — saving and restoring the queue preserves every job."""
from . import qs_common

LEVEL = "proof"


def run(chk):
    qs_common.qs_check(chk, "C18", "c18", ["MwVerif.Props.C18"], {"C18"})
