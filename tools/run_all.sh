#!/bin/bash
# usage: tools/run_all.sh <tier> <seed>...   -- every claimed check on the current tree; prints exit codes
tier=$1; shift
ids=$(/venv/bin/python -c "import json;print(' '.join(sorted(json.load(open('/verif/harness/registry.json'))['checks'])))")
for seed in "$@"; do
  for id in $ids; do
    t0=$(date +%s)
    VERIF_SEED=$seed VERIF_TIER=$tier timeout 2400 ./check $id > /tmp/runall.$id.$seed.log 2>&1; rc=$?
    echo "$id seed=$seed tier=$tier rc=$rc $(( $(date +%s) - t0 ))s $(grep -c KNOWN-FINDING /tmp/runall.$id.$seed.log) known $(grep VIOLATION /tmp/runall.$id.$seed.log | head -2 | tr '\n' ' ')"
  done
done
