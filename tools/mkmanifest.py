#!/usr/bin/env python3
"""Regenerate MANIFEST.json from harness/registry.json (keeps not_applicable current)."""
import json
from pathlib import Path

root = Path(__file__).resolve().parent.parent
reg = json.loads((root / "harness" / "registry.json").read_text())
props = [json.loads(l)["id"] for l in (root / "properties.jsonl").read_text().splitlines() if l.strip()]
checks = []
for pid in props:
    r = reg["checks"].get(pid)
    if not r:
        continue
    checks.append(
        {
            "property_id": pid,
            "quick_cmd": f"./check {pid} --tier quick",
            "thorough_cmd": f"./check {pid} --tier thorough",
            "evidence_file": f"evidence/{pid}.json",
            "replay_cmd_template": f"./check {pid} --replay {{path}}",
            "engine": "lean-model",
            "level_claimed": {"category": r["category"], "text": r["text"], "design_ref": f"DESIGN.md §5 {pid}"},
            "level_note": r["note"],
            "technique": r["technique"],
        }
    )
claimed = [c["property_id"] for c in checks]
na = [
    {"property_id": p, "reason": reg.get("not_applicable", {}).get(p, "not claimed yet: model and check under construction (see DESIGN.md §9 order of work)")}
    for p in props
    if p not in claimed
]
m = {
    "version": 1,
    "setup_cmd": "./check --setup",
    "hooks": reg["hooks"],
    "engines": [
        {"name": "lean-model", "path": "lean/", "serves_properties": claimed,
         "kind_free_text": "Lean 4 models + theorems (lake lib MwVerif, no Mathlib in models), compiled line-protocol driver"},
        {"name": "harness", "path": "harness/", "serves_properties": claimed,
         "kind_free_text": "Python: translators to lean/MwVerif/Gen, correspondence checks, implementation oracles, evidence"},
    ],
    "checks": checks,
    "not_applicable": na,
    "notes": reg.get("notes", ""),
}
(root / "MANIFEST.json").write_text(json.dumps(m, indent=1) + "\n")
print("claimed:", claimed)
