#!/bin/bash
# usage: tools/seed_eval2.sh <worktree-id e.g. C03a> <seed-name> <check ids...>
# verifies a sub-agent's seeded change (worktree /tmp/wt/<id>, deliverables /tmp/wt/<id>.out), runs our
# checks against it in /repo (applied temporarily), stores it under seeded/<seed-name>/
# (no `git stash`: the stash stack is shared between worktrees)
set -u
wt=/tmp/wt/$1; out=/tmp/wt/$1.out; name=$2; shift 2
cd "$wt" || exit 2
git -C "$wt" diff -- src ':!*.c' > /tmp/wt/$name.patch
echo "== demo with change"; PYTHONPATH=$wt/src PATH=/venv/bin:$PATH timeout 600 /venv/bin/python $out/demo.py < /dev/null 2>&1 | grep -v "WARNING\|httpx" | tail -3; echo "rc=${PIPESTATUS[0]}"
git -C "$wt" apply -R /tmp/wt/$name.patch; /tmp/wt/rebuild_ext.sh $wt >/dev/null 2>&1; echo "== demo without change"; PYTHONPATH=$wt/src PATH=/venv/bin:$PATH timeout 600 /venv/bin/python $out/demo.py < /dev/null 2>&1 | grep -v "WARNING\|httpx" | tail -2; echo "rc=${PIPESTATUS[0]}"
echo "== existing tests with change"; git -C "$wt" apply /tmp/wt/$name.patch; /tmp/wt/rebuild_ext.sh $wt >/dev/null 2>&1
(cd $wt && PYTHONPATH=$wt/src PATH=/venv/bin:$PATH timeout 1200 /venv/bin/python -m pytest -q -p no:cacheprovider --timeout=900 --continue-on-collection-errors --deselect tests/qs/test_proc.py < /dev/null 2>&1 | tail -1)
cd /verif
if ! git -C /repo apply --check /tmp/wt/$name.patch; then echo "patch does not apply to /repo"; exit 2; fi
git -C /repo apply /tmp/wt/$name.patch
for c in "$@"; do echo "== ./check $c"; timeout 1500 ./check $c > /tmp/wt/$name.$c.log 2>&1; echo "exit=$?"; grep -E "VIOLATION|^# |HARNESS|Traceback" /tmp/wt/$name.$c.log | cut -c1-300 | head -6; done
git -C /repo checkout -- .; git -C /verif checkout -- evidence 2>/dev/null
mkdir -p /verif/seeded/$name
cp /tmp/wt/$name.patch /verif/seeded/$name/patch.diff
cp $out/demo.py /verif/seeded/$name/demo.py
cp $out/notes.md /verif/seeded/$name/notes.md 2>/dev/null
git -C /repo status --short | head -3
