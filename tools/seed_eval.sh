#!/bin/bash
# usage: tools/seed_eval.sh <worktree-id e.g. C16> <seed-name> <check ids...>
# verifies a sub-agent's seeded change, runs our checks against it, stores it under seeded/
set -u
wt=/tmp/seed/$1; name=$2; shift 2
cd "$wt" || exit 2
echo "== demo with change"; PYTHONPATH=$wt/src timeout 300 /venv/bin/python demo.py < /dev/null 2>&1 | grep -v "WARNING\|httpx" | tail -3; echo "rc=$?"
git stash -q; echo "== demo without change"; PYTHONPATH=$wt/src timeout 300 /venv/bin/python demo.py < /dev/null 2>&1 | grep -v "WARNING\|httpx" | tail -2; git stash pop -q
git -C "$wt" diff -- src > /tmp/seed/$name.patch
cd /verif
if ! git -C /repo apply --check /tmp/seed/$name.patch; then echo "patch does not apply to /repo"; exit 2; fi
git -C /repo apply /tmp/seed/$name.patch
for c in "$@"; do echo "== ./check $c"; (./check $c 2>&1 | grep -v "KNOWN-FINDING\|httpx\|WARNING" | grep -E "VIOLATION|^#|rc=|Error|Traceback" | head -6); echo "exit=${PIPESTATUS[0]}"; done
git -C /repo checkout -- .
mkdir -p /verif/seeded/$name
cp /tmp/seed/$name.patch /verif/seeded/$name/patch.diff
cp $wt/demo.py /verif/seeded/$name/demo.py
cp $wt/notes.md /verif/seeded/$name/notes.md 2>/dev/null
git -C /repo status --short | head -3
